package hpack

import "bytes"

// C01 — HPACK encode/decode round-trips every header list.  Shape B: bounded history from the real initial state.
//
// One real Encoder (writing to a bytes.Buffer) and one real Decoder (NewDecoder(4096), the encoder's initial size).
// A history is <= k steps. At a block boundary a step is one of
//     WriteField(f) | Encoder.SetMaxDynamicTableSize(v) + Decoder.SetAllowedMaxDynamicTableSize(v)   (peer SETTINGS)
//                   | Encoder.SetMaxDynamicTableSizeLimit(v)                                           (local cap)
// and inside a block one of  WriteField(f) | end of block (Decoder.Write(all bytes of the block) + Close).
// Size changes happen only between blocks (as the property states); an open block is closed at the end.
// v is a symbolic uint32. Fields: see c01field. Sensitive is symbolic.
//
// Oracle at every end of block: no error; emitted fields == written fields (name, value, Sensitive, order);
// lock-step: the encoder's dynamic table is the newest part of the decoder's table (equal unless the encoder shrank
// locally without telling, see c01lockstep), sizes = sum of entry sizes <= maxSize, equal maxSize after a block.
// After every step: headerFieldTable index invariant of the encoder table (byName / byNameValue point to the newest
// live entry with that name / pair, every entry is indexed), encoder size accounting.

// Findings on the unchanged tree (both reproduce natively, see repro/C01/ and known_findings.txt):
//   C01-second-size-update-rejected  Decoder.Write clears firstField after a table size update, so the second of the
//       two updates that RFC 7541 §4.2 prescribes after "shrink then grow" (and that Encoder emits) is rejected with
//       "dynamic table size update MUST occur at the beginning of a header block" whenever the table is non-empty.
//       The round trip fails: a genuine violation of the property (found by VerifC01_resize; in VerifC01_history
//       only in the thorough tier: field, end, max, max, field).
//   C01-limit-shrink-not-signalled   SetMaxDynamicTableSizeLimit lowers the table without recording minSize; a
//       shrink undone before the next block is never signalled, the decoder keeps entries the encoder evicted.
//       Fields still round-trip (asserted); only the strict table equality fails.
// The known-finding predicates are computed from observed table maxima (ghost low / lowM), not from the encoder's
// own bookkeeping, so a broken minSize computation is still reported.
//
// Sensitivity (mut.sh, quick tier), both caught:
//   encode.go SetMaxDynamicTableSize `if v < e.minSize` -> `v > e.minSize`   VerifC01_resize (tables are equal)
//   tables.go evictOldest `if t.byName[f.Name] == id` -> `!= 0`               VerifC01_history (table index invariant)

func init() {
	vfRegister("VerifC01_history", VerifC01_history)
	vfRegister("VerifC01_resize", VerifC01_resize)
	vfRegister("VerifC01_gaps", VerifC01_gaps)
}

// c01field builds one header field. Symbolic strings are at most 2 bytes (never Huffman coded: the Huffman form
// is not shorter); Huffman coding and long strings use concrete text.
func c01field(kinds []int) (f HeaderField, kind int) {
	kind = kinds[vfChoice("kind", len(kinds))]
	switch kind {
	case 0: // new or repeated 1-byte name / 1-byte value: dynamic exact match, dynamic name match, no match
		f.Name, f.Value = vfString("name", 1), vfString("value", 1)
	case 1: // static exact match
		f.Name, f.Value = ":method", "GET"
	case 2: // static name match, symbolic value
		f.Name, f.Value = ":method", vfString("value", 1)
	case 3: // Huffman-favourable name, incompressible value
		f.Name, f.Value = "custom-key", "\xff\xfe\xfd"
	case 4: // empty name, 2-byte value
		f.Name, f.Value = "", vfString("value", 2)
	}
	f.Sensitive = vfBool("sensitive")
	return
}

// c01tableInv is the representation invariant of headerFieldTable (dynamic tables).
func c01tableInv(t *headerFieldTable) bool {
	n := len(t.ents)
	ok := true
	for name, id := range t.byName {
		if id <= t.evictCount || id > t.evictCount+uint64(n) {
			return false
		}
		k := int(id - t.evictCount - 1)
		ok = vfAnd(ok, t.ents[k].Name == name)
		for j := k + 1; j < n; j++ {
			ok = vfAnd(ok, t.ents[j].Name != name)
		}
	}
	for p, id := range t.byNameValue {
		if id <= t.evictCount || id > t.evictCount+uint64(n) {
			return false
		}
		k := int(id - t.evictCount - 1)
		ok = vfAnd(ok, vfAnd(t.ents[k].Name == p.name, t.ents[k].Value == p.value))
		for j := k + 1; j < n; j++ {
			ok = vfAnd(ok, vfNot(vfAnd(t.ents[j].Name == p.name, t.ents[j].Value == p.value)))
		}
	}
	for k := 0; k < n; k++ {
		inName, inPair := false, false
		for name := range t.byName {
			inName = vfOr(inName, name == t.ents[k].Name)
		}
		for p := range t.byNameValue {
			inPair = vfOr(inPair, vfAnd(p.name == t.ents[k].Name, p.value == t.ents[k].Value))
		}
		ok = vfAnd(ok, vfAnd(inName, inPair))
	}
	return ok
}

func c01sizeOK(dt *dynamicTable) bool {
	var sum uint64
	for _, e := range dt.table.ents {
		sum += uint64(len(e.Name) + len(e.Value) + 32)
	}
	return vfAnd(uint64(dt.size) == sum, dt.size <= dt.maxSize)
}

func c01sameFields(a, b []HeaderField) bool {
	if len(a) != len(b) {
		return false
	}
	ok := true
	for i := range a {
		ok = vfAnd(ok, a[i].Name == b[i].Name)
		ok = vfAnd(ok, a[i].Value == b[i].Value)
		ok = vfAnd(ok, a[i].Sensitive == b[i].Sensitive)
	}
	return ok
}

type c01state struct {
	buf     bytes.Buffer
	e       *Encoder
	d       *Decoder
	got     []HeaderField
	want    []HeaderField
	open    bool
	nfields int
	// ghost: lowest maximum the encoder's table had since the last size update it emitted, and whether some
	// shrink was never signalled to the decoder (then the decoder legitimately keeps older entries)
	low    uint32
	lowM   uint32 // lowest maximum right after a SetMaxDynamicTableSize call in the same interval
	extras bool
	// ghost: the block being written starts with two size updates and the decoder's table will not be empty after
	// the first one (the class of the known finding C01-second-size-update-rejected)
	twoNonEmpty bool
	// events for the vacuity markers
	evTwo, evAdd, evResize, evIndexed, evHuff bool
	// sizeCap != 0: sizes passed to the two setters are assumed <= sizeCap (VerifC01_gaps)
	sizeCap uint32
}

func (s *c01state) size(label string) uint32 {
	v := vfU32(label)
	if s.sizeCap != 0 {
		vfAssume(v <= s.sizeCap)
	}
	return v
}

func c01new() *c01state {
	s := &c01state{low: initialHeaderTableSize, lowM: uint32Max}
	s.e = NewEncoder(&s.buf)
	s.d = NewDecoder(initialHeaderTableSize, func(f HeaderField) { s.got = append(s.got, f) })
	return s
}

// lockstep relates the two dynamic tables after a decoded block.
func (s *c01state) lockstep() {
	et, dt := &s.e.dynTab, &s.d.dynTab
	vfAssert(c01sizeOK(et), "encoder table size = sum of entries <= max")
	vfAssert(c01sizeOK(dt), "decoder table size = sum of entries <= max")
	vfAssert(et.maxSize == dt.maxSize, "same maximum table size after a block")
	ne, nd := len(et.table.ents), len(dt.table.ents)
	vfAssert(ne <= nd, "decoder holds at least the encoder's entries")
	same := true
	for i := 0; i < ne && i < nd; i++ {
		a, b := et.table.ents[ne-1-i], dt.table.ents[nd-1-i]
		same = vfAnd(same, vfAnd(a.Name == b.Name, a.Value == b.Value))
	}
	vfAssert(same, "encoder table is the newest part of the decoder table")
	vfAssert(c01tableInv(&et.table), "encoder table index invariant")
	vfAssert(c01tableInv(&dt.table), "decoder table index invariant")
	// RFC 7541 §4.2 lock-step: equal tables. Known deviation: a shrink through SetMaxDynamicTableSizeLimit that is
	// undone before the next block is never signalled (minSize is not recorded), see known_findings.txt.
	vfAssertKF(ne == nd, "encoder and decoder tables are equal", "C01-limit-shrink-not-signalled", s.extras)
}

func (s *c01state) endBlock() {
	block := append([]byte(nil), s.buf.Bytes()...)
	s.buf.Reset()
	s.got = nil
	n, err := s.d.Write(block)
	// Known finding: Decoder.Write clears firstField after a table size update, so the second of the two updates
	// RFC 7541 §4.2 prescribes (and Encoder emits) is rejected while the table is non-empty.
	vfAssertKF(err == nil, "decoder accepts the encoder's block", "C01-second-size-update-rejected", s.twoNonEmpty)
	vfAssert(n == len(block), "decoder consumes the block")
	vfAssert(s.d.Close() == nil, "block is complete")
	vfAssert(c01sameFields(s.got, s.want), "decoded fields == written fields")
	s.lockstep()
	vfObserve("blocklen", uint64(len(block)))
	vfObserve("nfields", uint64(len(s.got)))
	s.want = nil
	s.open = false
	s.twoNonEmpty = false
}

// step performs one operation: 0 WriteField, 1 end of block, 2 SetMaxDynamicTableSize (+ decoder allowed size),
// 3 SetMaxDynamicTableSizeLimit.
func (s *c01state) step(op int, kinds []int) {
	et := &s.e.dynTab
	evicted := et.table.evictCount
	switch op {
	case 0:
		s.nfields++
		f, kind := c01field(kinds)
		if !s.open {
			// First field of a block: pending size changes are signalled now. Ghost computed from the observed
			// table maxima only (not from the encoder's own minSize / tableSizeUpdate bookkeeping):
			// an encoder that tracks the minimum over SetMaxDynamicTableSize calls signals min(lowM, final).
			sig := vfIteU32(s.lowM < et.maxSize, s.lowM, et.maxSize)
			s.extras = vfOr(s.extras, s.low < sig) // a deeper shrink (through the limit setter) stays unsignalled
			if vfConcretizeBool(s.lowM < et.maxSize) {
				s.evTwo = true
				// two updates; the decoder's newest entry survives the first one
				if de := s.d.dynTab.table.ents; len(de) > 0 {
					s.twoNonEmpty = de[len(de)-1].Size() <= s.lowM
				}
			}
			s.low, s.lowM = et.maxSize, uint32Max
		}
		before := s.buf.Len()
		nents := len(et.table.ents)
		vfAssert(s.e.WriteField(f) == nil, "WriteField succeeds")
		s.want = append(s.want, f)
		s.open = true
		if et.table.evictCount > evicted {
			s.evAdd = true
		}
		if len(et.table.ents) == nents && et.table.evictCount == evicted && s.buf.Len()-before == 1 {
			s.evIndexed = true
		}
		if kind == 3 {
			s.evHuff = true
		}
	case 1:
		s.endBlock()
	case 2:
		v := s.size("max")
		s.e.SetMaxDynamicTableSize(v)
		s.d.SetAllowedMaxDynamicTableSize(v)
		s.lowM = vfIteU32(et.maxSize < s.lowM, et.maxSize, s.lowM)
		if et.table.evictCount > evicted {
			s.evResize = true
		}
	case 3:
		s.e.SetMaxDynamicTableSizeLimit(s.size("limit"))
	}
	s.low = vfIteU32(et.maxSize < s.low, et.maxSize, s.low)
	if op != 1 {
		vfAssert(vfAnd(c01sizeOK(et), et.maxSize <= s.e.maxSizeLimit), "encoder table size = sum of entries <= max <= limit")
	}
}

func VerifC01_history() {
	// quick:    4 steps, <= 3 fields of kinds 0, 2, 3
	// thorough: 5 steps, <= 3 fields of kinds 0, 2   or   4 steps, <= 3 fields of kinds 0, 1, 3, 4
	// (5 steps x kinds 0, 2, 3 plus 4 steps x kinds 0..4 is > 10^5 paths: over the time budget)
	steps, maxFields, kinds := 4, 3, []int{0, 2, 3}
	if vfTier() > 0 {
		if vfChoice("plan", 2) == 0 {
			steps, kinds = 5, []int{0, 2}
		} else {
			kinds = []int{0, 1, 3, 4}
		}
	}
	s := c01new()
	for step := 0; step < steps; step++ {
		var op int
		if s.open {
			op = vfChoice("op-in-block", 2) // 0 field, 1 end of block
		} else {
			op = []int{0, 2, 3}[vfChoice("op-at-boundary", 3)]
		}
		if op == 0 && s.nfields == maxFields {
			vfAssume(false)
		}
		s.step(op, kinds)
	}
	if s.open {
		s.endBlock()
	}
	vfAssert(c01tableInv(&s.e.dynTab.table), "encoder table index invariant")
	if s.evTwo {
		vfReach("two-size-updates")
	}
	if s.evAdd {
		vfReach("evict-on-add")
	}
	if s.evResize {
		vfReach("evict-on-resize")
	}
	if s.evIndexed {
		vfReach("indexed")
	}
	if s.evHuff {
		vfReach("huffman-and-raw")
	}
	vfReach("end")
}

// VerifC01_resize: a fixed longer history around the table-size machinery, all sizes symbolic, fields of kind 0
// (symbolic 1-byte name and value, symbolic Sensitive):
//
//	field, end, limit(v1), limit(v2), max(v3), max(v4), field, end
//
// (reaches: shrink and re-grow between two blocks through both setters, two size updates in one block, the
// decoder evicting on a size update, a reference to an entry that survived a resize).
func VerifC01_resize() {
	s := c01new()
	for _, op := range []int{0, 1, 3, 3, 2, 2, 0, 1} {
		s.step(op, []int{0})
	}
	if s.evTwo {
		vfReach("two-size-updates")
	}
	if s.evResize {
		vfReach("evict-on-resize")
	}
	vfReach("end")
}

// VerifC01_gaps: several blocks of one field each with a gap of size changes before every block:
//
//	quick:    gap(2), field, end, gap(2), field, end
//	thorough: gap(3), field, end, gap(1), field, end   or   gap(2), field, end, gap(1), field, end, gap(1), field, end
//
// gap(n) = n calls, each max(v) or limit(v). Every setter of every gap is chosen (max / limit) and every size is
// symbolic, so the minimum-size bookkeeping of one gap (shrink and re-grow, through either setter) is followed by
// further blocks that refill the table and by a later gap whose bookkeeping must start afresh: a size update left
// over from an earlier, already signalled gap would make the decoder evict entries the encoder keeps. Fields are of
// kind 0 (34 bytes each); sizes are <= 127 (what matters is their order relative to each other and to
// 34 / 68 / 102 = one, two, three entries).
func VerifC01_gaps() {
	gaps := []int{2, 2}
	if vfTier() > 0 {
		if vfChoice("plan", 2) == 0 {
			gaps = []int{3, 1} // {3, 3} and three blocks with gaps of 2 are > 2*10^5 paths / 10^6 solver queries
		} else {
			gaps = []int{2, 1, 1}
		}
	}
	s := c01new()
	s.sizeCap = 127
	reref := false
	for b, n := range gaps {
		for g := 0; g < n; g++ {
			s.step(2+vfChoice("setter", 2), nil)
		}
		nents := len(s.e.dynTab.table.ents)
		s.step(0, []int{0})
		if b > 0 && nents > 0 && s.evIndexed {
			reref = true
		}
		s.step(1, nil)
	}
	if reref {
		vfReach("entry-survives-gap-and-is-referenced")
	}
	if s.evTwo {
		vfReach("two-size-updates")
	}
	if s.evResize {
		vfReach("evict-on-resize")
	}
	vfReach("end")
}
