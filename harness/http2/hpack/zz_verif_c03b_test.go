package hpack

// C03 (template run beyond the N-byte window) — a complete, acceptable literal field whose two length integers are
// padded with 0x80 continuation bytes, under SetMaxStringLength(127): one Write versus a split at every position.
// DESIGN.md §7 item 6: the "paranoia" bound 2*(maxStrLen+8) in Decoder.Write rejects the buffered prefix of such a
// field when the split falls in its last bytes, although the same bytes are accepted in one Write.

func init() {
	vfRegister("VerifC03_paddedTemplate", VerifC03_paddedTemplate)
}

func c03padInt(dst []byte, pad int) []byte {
	// the value 127 with a 7-bit prefix: 0x7f, `pad` continuation bytes carrying zero, terminating 0x00
	dst = append(dst, 0x7f)
	for i := 0; i < pad; i++ {
		dst = append(dst, 0x80)
	}
	return append(dst, 0x00)
}

func VerifC03_paddedTemplate() {
	const L = 127
	var k1, k2 int
	if vfTier() > 0 {
		k1, k2 = vfChoice("pad-name", 9), vfChoice("pad-value", 9)
	} else {
		k1, k2 = 8*vfChoice("pad-name", 2), 8*vfChoice("pad-value", 2)
	}
	block := []byte{0x00} // literal header field without indexing, new name
	block = c03padInt(block, k1)
	for i := 0; i < L; i++ {
		block = append(block, 'a')
	}
	block = c03padInt(block, k2)
	for i := 0; i < L; i++ {
		block = append(block, 'b')
	}
	// one symbolic value byte keeps the run a solver question rather than a single concrete test
	vb := vfU8("valuebyte")
	block[len(block)-1] = vb

	a := c03decoder(L, false)
	_, err := a.d.Write(append([]byte(nil), block...))
	a.failed = err != nil
	if !a.failed {
		a.failed = a.d.Close() != nil
	}
	vfAssert(!a.failed && len(a.fields) == 1, "the padded literal is accepted in a single Write")

	k := 1 + vfChoice("split", len(block)-1)
	b := c03decoder(L, false)
	_, err = b.d.Write(append([]byte(nil), block[:k]...))
	b.failed = err != nil
	if !b.failed {
		_, err = b.d.Write(append([]byte(nil), block[k:]...))
		b.failed = err != nil
	}
	if !b.failed {
		b.failed = b.d.Close() != nil
	}
	// known finding key: splits after which more than 2*(L+8) bytes of the incomplete field are buffered
	known := k > 2*(L+8)
	vfAssertKF(a.failed == b.failed, "same success/failure whether or not the block is split", "C03-paranoia-bound-padded-varints", known)
	vfAssert(c03sameFields(a.fields, b.fields), "same emitted fields")
	if k1+k2 == 16 {
		vfReach("max-padding")
	}
	vfReach("end")
}
