package hpack

// C03 (template run beyond the N-byte window) — a complete, acceptable literal field whose two length integers are
// padded with 0x80 continuation bytes, under SetMaxStringLength(127): one Write versus a split at every position.
// DESIGN.md §7 item 6: the "paranoia" bound 2*(maxStrLen+8) in Decoder.Write rejects the buffered prefix of such a
// field when the split falls in its last bytes, although the same bytes are accepted in one Write.

func init() {
	vfRegister("VerifC03_paddedTemplate", VerifC03_paddedTemplate)
}

func c03padInt(dst []byte, pad int) []byte {
	// the value 127 with a 7-bit prefix: 0x7f, `pad` continuation bytes carrying zero, terminating 0x00
	dst = append(dst, 0x7f)
	for i := 0; i < pad; i++ {
		dst = append(dst, 0x80)
	}
	return append(dst, 0x00)
}

func VerifC03_paddedTemplate() {
	const L = 127
	var k1, k2 int
	if vfTier() > 0 {
		k1, k2 = vfChoice("pad-name", 9), vfChoice("pad-value", 9)
	} else {
		k1, k2 = 8*vfChoice("pad-name", 2), 8*vfChoice("pad-value", 2)
	}
	block := []byte{0x00} // literal header field without indexing, new name
	block = c03padInt(block, k1)
	for i := 0; i < L; i++ {
		block = append(block, 'a')
	}
	block = c03padInt(block, k2)
	for i := 0; i < L; i++ {
		block = append(block, 'b')
	}
	// one symbolic value byte keeps the run a solver question rather than a single concrete test
	vb := vfU8("valuebyte")
	block[len(block)-1] = vb

	a := c03decoder(L, false)
	_, err := a.d.Write(append([]byte(nil), block...))
	a.failed = err != nil
	if !a.failed {
		a.failed = a.d.Close() != nil
	}
	vfAssert(!a.failed && len(a.fields) == 1, "the padded literal is accepted in a single Write")

	k := 1 + vfChoice("split", len(block)-1)
	b := c03decoder(L, false)
	_, err = b.d.Write(append([]byte(nil), block[:k]...))
	b.failed = err != nil
	if !b.failed {
		_, err = b.d.Write(append([]byte(nil), block[k:]...))
		b.failed = err != nil
	}
	if !b.failed {
		b.failed = b.d.Close() != nil
	}
	// known finding key: splits after which more than 2*(L+8) bytes of the incomplete field are buffered
	known := k > 2*(L+8)
	vfAssertKF(a.failed == b.failed, "same success/failure whether or not the block is split", "C03-paranoia-bound-padded-varints", known)
	vfAssert(c03sameFields(a.fields, b.fields), "same emitted fields")
	if k1+k2 == 16 {
		vfReach("max-padding")
	}
	vfReach("end")
}

func init() {
	vfRegister("VerifC03_manyFields", VerifC03_manyFields)
	vfRegister("VerifC03_chunks", VerifC03_chunks)
}

// c03cuts chooses a partition of n bytes into 2..maxChunks consecutive non-empty chunks (every such partition is
// one path) and returns the cut positions.
func c03cuts(n, maxChunks int) []int {
	nc := 2 + vfChoice("chunks", maxChunks-1)
	var cuts []int
	prev := 0
	for i := 1; i < nc; i++ {
		// leave room for the remaining nc-i chunks
		room := n - prev - (nc - i)
		if room < 1 {
			vfAssume(false)
		}
		prev += 1 + vfChoice("cut", room)
		cuts = append(cuts, prev)
	}
	return cuts
}

// c03feed writes block to r in the chunks given by cuts, then closes.
func c03feed(r *c03run, block []byte, cuts []int) {
	prev := 0
	for _, c := range append(append([]int(nil), cuts...), len(block)) {
		if r.failed {
			return
		}
		_, err := r.d.Write(append([]byte(nil), block[prev:c]...))
		r.failed = err != nil
		prev = c
	}
	if !r.failed {
		r.failed = r.d.Close() != nil
	}
}

func c03compare(a, b *c03run) {
	vfAssert(a.failed == b.failed, "same success/failure whether or not the block is split")
	// fields emitted before a failure are the same too (the failing representation is the same one)
	vfAssert(c03sameFields(a.fields, b.fields), "same emitted fields")
	vfAssert(c03sameTable(a.d, b.d), "same dynamic table")
	if !a.failed {
		vfAssert(b.d.saveBuf.Len() == 0, "nothing buffered after a complete block")
		vfReach("accepted")
	} else {
		vfReach("rejected")
	}
	vfObserve("nfields", uint64(len(a.fields)))
}

// VerifC03_manyFields: a block much longer than one field (and longer than the decoder's bound on a buffered
// incomplete field, 2*(maxStrLen+11) bytes) under a small SetMaxStringLength: seven complete fields (six literals with
// names of 0..2 and values of 0..2 bytes in all three literal forms, one indexed field referring to the first), every partition into 2..4
// chunks (thorough 2..5). Structure concrete, string bytes of the non-indexing literals symbolic.
// A chunk that ends inside a field may be followed by a chunk that completes it and carries many further fields.
func VerifC03_manyFields() {
	maxStr := 1 + vfChoice("maxstr", 3) // 2 or 3: bound 26 / 28 bytes, block 33 bytes; 1: the first name is too long
	shapes := [][3]int{{0x40, 2, 0}, {0x00, 1, 1}, {0x10, 0, 2}, {0x00, 2, 2}, {0x40, 1, 0}, {0x10, 2, 1}}
	var block []byte
	for i, sh := range shapes {
		block = append(block, byte(sh[0]), byte(sh[1]))
		for j := 0; j < sh[1]; j++ {
			if sh[0] == 0x40 {
				block = append(block, byte('a'+i)) // indexed names stay concrete (symbolic map keys fork)
			} else {
				block = append(block, vfU8("namebyte"))
			}
		}
		block = append(block, byte(sh[2]))
		for j := 0; j < sh[2]; j++ {
			block = append(block, vfU8("valuebyte"))
		}
		if i == 2 {
			block = append(block, 0xbe) // indexed field: index 62 = the first field of this block (static entries exceed maxStr)
		}
	}
	maxChunks := 4
	if vfTier() > 0 {
		maxChunks = 5
	}
	cuts := c03cuts(len(block), maxChunks)

	a := c03decoder(maxStr, false)
	c03feed(a, block, nil)
	if maxStr >= 2 {
		vfAssert(!a.failed && len(a.fields) == len(shapes)+1, "the block is accepted in a single Write")
	} else {
		vfAssert(a.failed && len(a.fields) == 0, "the block is rejected at its first field in a single Write")
	}
	b := c03decoder(maxStr, false)
	c03feed(b, block, cuts)
	c03compare(a, b)
	if len(cuts) > 0 && cuts[len(cuts)-1] < len(block)-2*(maxStr+11) {
		vfReach("last-chunk-longer-than-the-field-bound")
	}
	vfReach("end")
}

// VerifC03_chunks: n symbolic bytes in every partition into 2..3 chunks (VerifC03_split: one split point). Bytes are
// below 0x80 (no indexed fields, no Huffman strings: those are covered by VerifC03_split) and index bits are
// restricted by c03allowed, so the blocks are sequences of literals (every form, new or indexed name, string lengths
// symbolic: truncated, complete, followed by further representations) and table size updates.
// Covers resumption histories of more than two steps: a field saved twice (first inside one string, then further
// along) before the rest arrives in short chunks.
func VerifC03_chunks() {
	n := 5
	if vfTier() > 0 {
		n = vfLen("n", 5, 6)
	}
	block := vfBytes("block", n)
	for _, b := range block {
		vfAssume(vfAnd(b < 0x80, c03allowed(b)))
	}
	cuts := c03cuts(n, 3)
	a := c03decoder(0, true)
	c03feed(a, block, nil)
	b := c03decoder(0, true)
	c03feed(b, block, cuts)
	c03compare(a, b)
	if len(cuts) == 2 {
		vfReach("three-chunks")
	}
	vfReach("end")
}
