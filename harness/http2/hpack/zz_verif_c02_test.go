package hpack

// C02 — the HPACK decoder is memory-safe and honours its limits on any input.
//
// Harnesses:
//   VerifC02_varint  (shape I, pure function) readVarInt on arbitrary <= 11 bytes for every prefix size n:
//                    value == RFC 7541 §5.1 reference, errNeedMore iff the input is a proper prefix of an integer the
//                    function accepts, overflow error otherwise, remain/consumed, re-encoding with appendVarInt.
//   VerifC02_decode  (shape B) real NewDecoder with symbolic table size / allowed size / max string length, optional
//                    concrete preload, then symbolic bytes presented as two header blocks (any cut point). In lock-step
//                    with a reference decoder (RFC 7541 §6) kept in this file: same emitted fields, error iff the
//                    reference rejects (bad index, bad Huffman, oversize / misplaced table update, string too long,
//                    truncated block at Close), same dynamic table. Limits asserted after every call. Every implicit
//                    Go panic on every path is checked by the engine ("never panics").
//   VerifC02_strings (shape B) same oracle on a template block: one literal field with concrete strings of 0..2 / 0..5
//                    characters, raw or Huffman coded, against a symbolic max string length.
//
//   VerifC02_longindex (shape B) same oracle on blocks whose first representation carries its table index as a
//                    multi-byte integer of every length readVarInt accepts (1..10 continuation bytes, any content:
//                    padded small indices, indices up to 2^63+126, the overflow cut-off), in all four index-bearing
//                    forms: every index outside the tables is an error, never a panic or a fabricated field.
//
//   VerifC02_longupdate (shape B) same oracle on blocks that open with a dynamic table size update whose size is a
//                    multi-byte integer of every length readVarInt accepts (0..10 continuation bytes, any content:
//                    sizes up to 2^63+30, i.e. far beyond uint32), optionally followed by a second short update and by
//                    one indexed field: every size above the allowed maximum (a full-width comparison, not one
//                    modulo 2^32) is an error and leaves the table untouched; accepted sizes evict exactly as §4.3.
//
// Sensitivity (mut.sh, quick tier), all caught:
//   hpack.go readString `strLen > uint64(d.maxStrLen)` -> `>=`            VerifC02_strings (error iff reference rejects)
//   hpack.go readVarInt `if m >= 63` -> `m >= 70`                         VerifC02_varint (consumes 1..10 bytes)
//   hpack.go size update `size > allowedMaxSize` -> `> allowedMaxSize+1`  VerifC02_decode (error iff reference rejects)
//   hpack.go at() `i > maxTableIndex()` -> `> maxTableIndex()+1`          VerifC02_decode (index out of range panic)
//
// Not covered: SetEmitEnabled(false) (strings of non-indexed literals are then not decoded at all, so Huffman errors
// in them are ignored by design); inputs longer than the bounds; the saveBuf bound is asserted but cannot be
// approached by inputs this short.

func init() {
	vfRegister("VerifC02_varint", VerifC02_varint)
	vfRegister("VerifC02_decode", VerifC02_decode)
	vfRegister("VerifC02_strings", VerifC02_strings)
	vfRegister("VerifC02_longindex", VerifC02_longindex)
	vfRegister("VerifC02_longupdate", VerifC02_longupdate)
}

// ---------------------------------------------------------------------------------------------------------------
// readVarInt

func VerifC02_varint() {
	n := vfLen("n", 1, 8)
	ln := vfLen("len", 0, 11)
	p := vfBytes("p", ln)

	v, rest, err := readVarInt(byte(n), append([]byte(nil), p...))

	// reference, fork-free
	mask := uint64(1)<<uint(n) - 1
	var pre uint64
	if ln > 0 {
		pre = uint64(p[0]) & mask
	}
	short := pre < mask // one-byte form
	// continuation bytes p[1..]: value, position of the first byte without the continuation bit
	var acc uint64
	allCont := true // all of p[1:] have the high bit
	term := ln      // index of the terminating byte (ln = none)
	for k := ln - 1; k >= 1; k-- {
		isTerm := p[k]&128 == 0
		term = vfIteInt(isTerm, k, term)
		allCont = vfAnd(allCont, vfNot(isTerm))
	}
	for k := 1; k < ln && k <= 9; k++ {
		// byte k contributes while no earlier byte terminated
		acc += vfIteU64(term >= k, uint64(p[k]&127)<<(7*uint(k-1)), 0)
	}
	// the function gives up after 9 continuation bytes that all carry the continuation bit (m reaches 63)
	overflow := vfAnd(vfNot(short), term > 9)
	if ln < 10 {
		overflow = false
	}

	switch {
	case err == nil:
		vfAssert(ln > 0, "no value from empty input")
		consumed := ln - len(rest)
		vfAssert(consumed >= 1 && consumed <= 10, "consumes 1..10 bytes")
		for i := range rest {
			vfAssert(rest[i] == p[consumed+i], "remain is the suffix of the input")
		}
		if consumed == 1 {
			vfAssert(short, "one-byte form only below the prefix mask")
			vfAssert(v == pre, "one-byte value")
			vfReach("short")
		} else {
			vfAssert(vfNot(short), "multi-byte form only at the prefix mask")
			vfAssert(term == consumed-1, "stops at the first byte without the continuation bit")
			vfAssert(v == mask+acc, "value = mask + sum of 7-bit groups")
			vfAssert(v < 1<<63+256, "value below 2^63 + 2^8")
			vfReach("long")
		}
		re := appendVarInt(nil, byte(n), v)
		vfAssert(len(re) <= consumed, "canonical re-encoding is not longer")
		v2, rest2, err2 := readVarInt(byte(n), re)
		vfAssert(err2 == nil && len(rest2) == 0, "re-encoding is one complete integer")
		vfAssert(v2 == v, "appendVarInt/readVarInt round trip")
		vfObserve("v", v)
	case err == errNeedMore:
		vfAssert(v == 0, "errNeedMore returns 0")
		vfAssert(len(rest) == ln, "errNeedMore returns the input unchanged")
		vfAssert(vfOr(ln == 0, vfAnd(vfNot(short), vfAnd(allCont, ln <= 9))), "errNeedMore only for a proper prefix")
		vfReach("needmore")
	default:
		_, isDE := err.(DecodingError)
		vfAssert(isDE, "only other error is the overflow DecodingError")
		vfAssert(v == 0, "overflow returns 0")
		vfAssert(len(rest) == ln, "overflow returns the input unchanged")
		vfAssert(overflow, "overflow only after 9 continuation bytes")
		vfReach("overflow")
	}
	// completeness of the three classes
	if ln == 0 {
		vfAssert(err == errNeedMore, "empty input needs more")
	}
	vfReach("end")
}

// ---------------------------------------------------------------------------------------------------------------
// reference decoder (RFC 7541 §6; §5.1 integers; §5.2 strings; §4 table management)

const (
	c02ok = iota
	c02bad
	c02trunc
)

type c02ref struct {
	dyn     []HeaderField // newest first
	size    uint64
	maxSize uint64
	allowed uint64
	maxStr  int
	first   bool
	out     []HeaderField
}

func c02size(f HeaderField) uint64 { return uint64(len(f.Name) + len(f.Value) + 32) }

func (r *c02ref) evict() {
	for r.size > r.maxSize && len(r.dyn) > 0 {
		r.size -= c02size(r.dyn[len(r.dyn)-1])
		r.dyn = r.dyn[:len(r.dyn)-1]
	}
}

func (r *c02ref) add(f HeaderField) {
	r.dyn = append([]HeaderField{f}, r.dyn...)
	r.size += c02size(f)
	r.evict()
}

func (r *c02ref) at(idx uint64) (HeaderField, bool) {
	if idx == 0 {
		return HeaderField{}, false
	}
	if idx <= 61 {
		return staticTable.ents[idx-1], true // static table contents = specification (RFC 7541 appendix A)
	}
	k := idx - 62
	if k >= uint64(len(r.dyn)) {
		return HeaderField{}, false
	}
	return r.dyn[k], true
}

func c02int(n uint, p []byte) (uint64, []byte, int) {
	if len(p) == 0 {
		return 0, p, c02trunc
	}
	mask := uint64(1)<<n - 1
	v := uint64(p[0]) & mask
	if v < mask {
		return v, p[1:], c02ok
	}
	for k := 1; k < len(p); k++ {
		if k > 9 {
			return 0, p, c02bad // implementation limit documented in the source (63 bits)
		}
		v += uint64(p[k]&127) << (7 * uint(k-1))
		if p[k]&128 == 0 {
			return v, p[k+1:], c02ok
		}
	}
	if len(p) > 9 {
		return 0, p, c02bad
	}
	return 0, p, c02trunc
}

func (r *c02ref) str(p []byte) (string, []byte, int) {
	if len(p) == 0 {
		return "", p, c02trunc
	}
	huff := p[0]&128 != 0
	n, rest, st := c02int(7, p)
	if st != c02ok {
		return "", p, st
	}
	if r.maxStr != 0 && n > uint64(r.maxStr) {
		return "", p, c02bad
	}
	if uint64(len(rest)) < n {
		return "", p, c02trunc
	}
	raw := rest[:n]
	rest = rest[n:]
	if !huff {
		return string(raw), rest, c02ok
	}
	s, err := HuffmanDecodeToString(raw) // Huffman decoding itself is the subject of C04
	if err != nil {
		return "", p, c02bad
	}
	if r.maxStr != 0 && len(s) > r.maxStr {
		return "", p, c02bad
	}
	return s, rest, c02ok
}

// one returns the status of the representation at the head of p and the remaining bytes.
func (r *c02ref) one(p []byte) ([]byte, int) {
	b := p[0]
	switch {
	case b&128 != 0:
		idx, rest, st := c02int(7, p)
		if st != c02ok {
			return p, st
		}
		f, ok := r.at(idx)
		if !ok {
			return p, c02bad
		}
		return rest, r.emit(HeaderField{Name: f.Name, Value: f.Value})
	case b&192 == 64:
		return r.literal(p, 6, true, false)
	case b&240 == 0:
		return r.literal(p, 4, false, false)
	case b&240 == 16:
		return r.literal(p, 4, false, true)
	}
	// 001xxxxx: dynamic table size update; allowed only at the start of a block (the source additionally
	// tolerates it later while the table is empty - mirrored here, it is not part of the property statement)
	if !r.first && r.size > 0 {
		return p, c02bad
	}
	v, rest, st := c02int(5, p)
	if st != c02ok {
		return p, st
	}
	if v > r.allowed {
		return p, c02bad
	}
	r.maxSize = v
	r.evict()
	return rest, c02ok
}

func (r *c02ref) literal(p []byte, n uint, index, never bool) ([]byte, int) {
	idx, rest, st := c02int(n, p)
	if st != c02ok {
		return p, st
	}
	var f HeaderField
	if idx > 0 {
		e, ok := r.at(idx)
		if !ok {
			return p, c02bad
		}
		f.Name = e.Name
	} else {
		f.Name, rest, st = r.str(rest)
		if st != c02ok {
			return p, st
		}
	}
	f.Value, rest, st = r.str(rest)
	if st != c02ok {
		return p, st
	}
	if index {
		r.add(f)
	}
	f.Sensitive = never
	return rest, r.emit(f)
}

func (r *c02ref) emit(f HeaderField) int {
	if r.maxStr != 0 && (len(f.Name) > r.maxStr || len(f.Value) > r.maxStr) {
		return c02bad
	}
	r.out = append(r.out, f)
	return c02ok
}

// block decodes one complete header block: c02ok, or c02bad (malformed / over a limit / truncated).
func (r *c02ref) block(p []byte) int {
	r.first = true
	for len(p) > 0 {
		// RFC 7541 §4.2: several size updates may open a block; only a field representation ends its beginning
		// (the real decoder follows this since /repo commit 637fd12)
		isSizeUpdate := p[0]&0xe0 == 0x20
		rest, st := r.one(p)
		if st == c02trunc {
			return c02bad // block ends inside a representation
		}
		if !isSizeUpdate {
			r.first = false
		}
		if st != c02ok {
			return st
		}
		p = rest
	}
	return c02ok
}

// ---------------------------------------------------------------------------------------------------------------
// driver

type c02run struct {
	d      *Decoder
	ref    *c02ref
	got    []HeaderField
	maxStr int
	m0, a  uint32
	trunc  bool // some block ended inside a representation
}

func c02new(m0 uint32, preload int) *c02run {
	r := &c02run{m0: m0}
	r.d = NewDecoder(m0, func(f HeaderField) {
		if r.maxStr != 0 {
			vfAssert(vfAnd(len(f.Name) <= r.maxStr, len(f.Value) <= r.maxStr), "emitted name/value within the max string length")
		}
		r.got = append(r.got, f)
	})
	r.ref = &c02ref{maxSize: uint64(m0), allowed: uint64(m0)}
	// concrete entries through a valid first block, so that dynamic indices and evictions are reachable
	pre := [][]byte{{0x40, 0x01, 'a', 0x01, 'b'}, {0x40, 0x02, 'c', 'c', 0x00}}
	for i := 0; i < preload; i++ {
		_, err := r.d.Write(pre[i])
		vfAssert(err == nil && r.d.Close() == nil, "preload accepted")
		vfAssert(r.ref.block(pre[i]) == c02ok, "preload accepted by the reference")
	}
	r.got, r.ref.out = nil, nil
	return r
}

func (r *c02run) config(a uint32, maxStr int) {
	r.a, r.maxStr = a, maxStr
	r.d.SetAllowedMaxDynamicTableSize(a)
	r.d.SetMaxStringLength(maxStr)
	r.ref.allowed, r.ref.maxStr = uint64(a), maxStr
}

// limits asserts the decoder's resource invariants.
func (r *c02run) limits() {
	dt := &r.d.dynTab
	var sum uint64
	for _, e := range dt.table.ents {
		sum += uint64(e.Size())
	}
	vfAssert(uint64(dt.size) == sum, "table size = sum of entry sizes")
	vfAssert(dt.size <= dt.maxSize, "table size within the current maximum")
	vfAssert(vfOr(dt.maxSize == r.m0, dt.maxSize <= r.a), "maximum never raised above the allowed maximum")
	if r.maxStr != 0 {
		// the bound of Decoder.Write (varIntOverhead = 11 since /repo 23a9071, 8 before)
		vfAssert(int64(r.d.saveBuf.Len()) <= 2*(int64(r.maxStr)+11), "buffered bytes within the paranoia bound")
	}
}

func c02sameFields(a, b []HeaderField) bool {
	if len(a) != len(b) {
		return false
	}
	ok := true
	for i := range a {
		ok = vfAnd(ok, a[i].Name == b[i].Name)
		ok = vfAnd(ok, a[i].Value == b[i].Value)
		ok = vfAnd(ok, a[i].Sensitive == b[i].Sensitive)
	}
	return ok
}

// blockBoth feeds one header block to the decoder and the reference and compares. Returns false after an error
// (the decoder is then not used any further, as its callers do).
func (r *c02run) blockBoth(p []byte) bool {
	n, werr := r.d.Write(append([]byte(nil), p...))
	r.limits()
	failed := werr != nil
	if !failed {
		vfAssert(n == len(p), "Write consumes everything on success")
		pending := r.d.saveBuf.Len() > 0
		cerr := r.d.Close()
		vfAssert(pending == (cerr != nil), "Close fails iff a representation is incomplete")
		vfAssert(r.d.saveBuf.Len() == 0, "Close drops pending bytes")
		failed = cerr != nil
		r.trunc = r.trunc || pending
	}
	r.limits()
	st := r.ref.block(p)
	vfAssert(failed == (st != c02ok), "error iff the reference rejects the block")
	// fields emitted before the failing representation are the same in both (nothing fabricated, nothing lost)
	vfAssert(c02sameFields(r.got, r.ref.out), "emitted fields equal the reference")
	if failed {
		vfReach("rejected")
		return false
	}
	// same dynamic table (the real one is oldest first)
	ents := r.d.dynTab.table.ents
	vfAssert(len(ents) == len(r.ref.dyn), "same number of table entries")
	same := true
	for i := range ents {
		if j := len(ents) - 1 - i; j < len(r.ref.dyn) {
			same = vfAnd(same, vfAnd(ents[i].Name == r.ref.dyn[j].Name, ents[i].Value == r.ref.dyn[j].Value))
		}
	}
	vfAssert(same, "same table entries")
	vfAssert(uint64(r.d.dynTab.size) == r.ref.size, "same table size")
	vfAssert(uint64(r.d.dynTab.maxSize) == r.ref.maxSize, "same table maximum")
	vfReach("accepted")
	return true
}

// c02allowed restricts index-bearing byte patterns to boundary indices (every static-table entry is a separate
// path; the full index range is covered by the first byte of the 1- and 2-byte runs):
//
//	1xxxxxxx index in {0,1,61,62,63,127}; 01xxxxxx index in {0,1,62,63}; 001xxxxx any; 000?xxxx index in {0,1,15}
//
// (61 = last static entry, 62/63 = the two preloaded dynamic entries, 127/63/15 = prefix mask: multi-byte integer)
func c02allowed(b byte) bool {
	i7, i6, i4 := b&0x7f, b&0x3f, b&0x0f
	ok7 := vfOr(i7 <= 1, vfOr(vfAnd(i7 >= 61, i7 <= 63), i7 == 127))
	ok6 := vfOr(i6 <= 1, i6 >= 62)
	ok4 := vfOr(i4 <= 1, i4 == 15)
	return vfOr(vfAnd(b >= 0x80, ok7), vfOr(vfAnd(vfAnd(b >= 0x40, b < 0x80), ok6), vfOr(vfAnd(b >= 0x20, b < 0x40), vfAnd(b < 0x20, ok4))))
}

func VerifC02_decode() {
	// Input: n symbolic bytes cut into two header blocks data[:k], data[k:] (k = 0: one block; every k).
	//   "wide" runs:   n = 1: any byte; n = 2: any first byte, second byte restricted by c02allowed;
	//                  preload 0 or 2 entries, max string length 0 (unlimited) or 1, symbolic table / allowed size
	//   "narrow" runs: n = 3 (thorough also 4), every byte restricted by c02allowed; 2 preloaded entries,
	//                  unlimited string length, symbolic table / allowed size
	// thorough: n = 3 is a wide run.
	nmax, wideMax := 3, 2
	if vfTier() > 0 {
		nmax, wideMax = 4, 3
	}
	n := vfLen("n", 1, nmax)
	data := vfBytes("data", n)
	for i, b := range data {
		if n > 2 || (n == 2 && i == 1) {
			vfAssume(c02allowed(b))
		}
	}
	m0, a := vfU32("tablesize"), vfU32("allowed")
	preload, maxStr := 2, 0
	if n <= wideMax {
		preload = 2 * vfChoice("preload", 2)
		maxStr = vfChoice("maxstr", 2)
	}
	r := c02new(m0, preload)
	r.config(a, maxStr)
	r.limits()

	k := vfChoice("cut", n)
	okSoFar := true
	if k > 0 {
		okSoFar = r.blockBoth(data[:k])
	}
	if okSoFar {
		r.blockBoth(data[k:])
	}
	if r.trunc {
		vfReach("truncated")
	}
	if len(r.d.dynTab.table.ents) > preload {
		vfReach("table-grew")
	}
	vfObserve("nfields", uint64(len(r.got)))
	vfObserve("tablesize", uint64(r.d.dynTab.size))
	vfReach("end")
}

func c02appendStr(dst []byte, s string, huff bool) []byte {
	if !huff {
		dst = append(dst, byte(len(s)))
		return append(dst, s...)
	}
	enc := AppendHuffmanString(nil, s)
	dst = append(dst, 0x80|byte(len(enc)))
	return append(dst, enc...)
}

func VerifC02_strings() {
	// One literal field (without / never / with indexing, new name) with concrete strings "a"*ln and "1"*lv, each
	// raw or Huffman coded (5-bit symbols: the decoded string is longer than its encoding), against a symbolic
	// max string length, table size and allowed size.
	ty := []byte{0x00, 0x10, 0x40}[vfChoice("type", 3)]
	ln, lv := vfLen("namelen", 0, 2), vfLen("valuelen", 0, 5)
	name, value := "aa"[:ln], "11111"[:lv]
	block := c02appendStr([]byte{ty}, name, vfChoice("namehuff", 2) == 1)
	block = c02appendStr(block, value, vfChoice("valuehuff", 2) == 1)
	maxStr := vfRange("maxstr", 0, 1<<30)
	r := c02new(vfU32("tablesize"), vfChoice("preload", 2))
	r.config(vfU32("allowed"), maxStr)
	if r.blockBoth(block) {
		vfAssert(len(r.got) == 1, "the literal was emitted")
		vfAssert(r.got[0].Name == name && r.got[0].Value == value, "with the original strings")
		if maxStr != 0 {
			vfAssert(vfAnd(ln <= maxStr, lv <= maxStr), "accepted only within the max string length")
		}
	} else {
		vfAssert(vfAnd(maxStr != 0, vfOr(ln > maxStr, lv > maxStr)), "rejected only over the max string length")
	}
	vfObserve("nfields", uint64(len(r.got)))
	vfReach("end")
}

func VerifC02_longindex() {
	// First representation: indexed field (7-bit prefix) or literal with incremental indexing (6) / without indexing
	// (4) / never indexed (4), the index prefix all ones, followed by an integer continuation of exactly 1..10 symbolic bytes (the complete
	// range of readVarInt: values from the prefix mask up to 2^63 + mask - 1, zero-padded encodings, the overflow
	// error after 9 continuation bytes), followed for the literal forms by a 1-byte raw value. Static-table hits are
	// restricted to the boundary indices mask, mask+1 (4-bit forms: also 60, 61) to keep the string-table forks small.
	form := vfChoice("form", 4)
	first := []byte{0xff, 0x7f, 0x0f, 0x1f}[form]
	mask := []uint64{127, 63, 15, 15}[form]
	nc := vfLen("cont", 1, 10)
	cont := vfBytes("cont", nc)
	data := append([]byte{first}, cont...)
	if form > 0 {
		data = append(data, 0x01, vfU8("value"))
	}
	// value of the integer as far as it is below 2^14 (fork-free): restrict small indices to boundary values
	var low uint64
	small := true
	for k := 0; k < nc; k++ {
		if k < nc-1 {
			vfAssume(cont[k]&128 != 0) // the integer spans all nc bytes (the last one may end it or not)
		}
		if k < 2 {
			low += uint64(cont[k]&127) << (7 * uint(k))
		} else {
			small = vfAnd(small, cont[k]&127 == 0)
		}
	}
	idx := mask + low
	vfAssume(vfOr(vfNot(small), vfOr(idx > 64, vfOr(idx <= mask+1, idx >= 60))))

	r := c02new(vfU32("tablesize"), 2)
	r.config(vfU32("allowed"), 0)
	r.limits()
	if r.blockBoth(data) {
		vfAssert(len(r.got) == 1, "one field emitted")
		vfReach("valid-index")
	}
	vfObserve("nfields", uint64(len(r.got)))
	vfObserve("tablesize", uint64(r.d.dynTab.size))
	vfReach("end")
}

func VerifC02_longupdate() {
	// Block: 001xxxxx size update. cont = 0: any 5-bit prefix below 31 (one-byte form); cont = 1..10: prefix all ones
	// followed by exactly that many symbolic continuation bytes (all but the last with the continuation bit; the last
	// may end the integer or not: truncated / overflowing integers included). Sizes: 0..2^63+30, i.e. every width
	// above uint32 too. Then optionally a second, one-byte size update (RFC 7541 §4.2 allows several at the start of a
	// block), then optionally one indexed field (index restricted by c02allowed: 0, 1, 61, the two preloaded dynamic
	// entries 62/63, 127 = truncated) which observes what the update evicted. 2 preloaded entries (sizes 34 + 35),
	// symbolic initial table size and allowed size.
	nc := vfLen("cont", 0, 10)
	var data []byte
	if nc == 0 {
		b := vfU8("prefix")
		vfAssume(b < 31)
		data = []byte{0x20 | b}
	} else {
		cont := vfBytes("cont", nc)
		for k := 0; k < nc-1; k++ {
			vfAssume(cont[k]&128 != 0)
		}
		data = append([]byte{0x3f}, cont...)
	}
	if vfChoice("second", 2) == 1 {
		b := vfU8("prefix2")
		vfAssume(b < 31)
		data = append(data, 0x20|b)
	}
	if vfChoice("field", 2) == 1 {
		b := vfU8("indexed")
		vfAssume(vfAnd(b >= 0x80, c02allowed(b)))
		data = append(data, b)
	}
	m0, a := vfU32("tablesize"), vfU32("allowed")
	r := c02new(m0, 2)
	r.config(a, 0)
	r.limits()
	before := r.d.dynTab.maxSize
	ok := r.blockBoth(data)
	// stated directly (independent of the reference): whatever was accepted, the table maximum is within the allowed
	// maximum or was never changed
	vfAssert(vfOr(r.d.dynTab.maxSize == before, r.d.dynTab.maxSize <= a), "table maximum changed only to a size within the allowed maximum")
	if ok {
		vfReach("update-accepted")
		if len(r.d.dynTab.table.ents) < 2 {
			vfReach("update-evicted")
		}
	}
	vfObserve("ok", vfIteU64(ok, 1, 0))
	vfObserve("nfields", uint64(len(r.got)))
	vfObserve("tablesize", uint64(r.d.dynTab.size))
	vfObserve("tablemax", uint64(r.d.dynTab.maxSize))
	vfReach("end")
}
