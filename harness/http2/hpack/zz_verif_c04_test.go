package hpack

import "bytes"

// C04 — Huffman coding is a canonical bijection on byte strings.  Shape B (pure functions, bounded input length).
//
// Harnesses:
//   VerifC04_table      concrete: the code table is a complete prefix-free code whose only missing leaf is EOS (30 ones)
//   VerifC04_encode     AppendHuffmanString == harness reference bit packer (fork-free), HuffmanEncodeLength == len,
//                       dst prefix intact; symbolic tail after a concrete run that puts the 32-bit flush logic in
//                       every phase n = 0..31
//   VerifC04_roundtrip  HuffmanDecode / HuffmanDecodeToString (AppendHuffmanString(s)) == s
//   VerifC04_decode     any v: accepted => AppendHuffmanString(output) == v (canonical, <8 bits of all-ones padding);
//                       rejected => the reject is justified by a table-only oracle (independent of the node tree)

// Sensitivity (mut.sh, quick tier): huffman.go `eosPadByte >> over` -> `>> pad` caught by VerifC04_encode;
// `y := uint32(x >> n)` -> `x >> (n & 30)` caught by VerifC04_encode; `if sbits > 7` -> `> 8` caught by
// VerifC04_decode ("accepted input has the canonical length"). `if n >= 32` -> `n > 32` is an equivalent mutant
// (x has room for 62 bits; not caught, correctly).
//
// Cost note: the decode tree is a table of pointers, so the walk forks per child node and the tail loop per left-over
// bit pattern: every concrete input of the decoder is a path of its own (~5 ms each). The decoder bounds are therefore
// small and chosen by path budget; leading bytes are enumerated with vfConcretize so that the remaining queries have
// <= 8 free bits.

func init() {
	vfRegister("VerifC04_table", VerifC04_table)
	vfRegister("VerifC04_encode", VerifC04_encode)
	vfRegister("VerifC04_roundtrip", VerifC04_roundtrip)
	vfRegister("VerifC04_decode", VerifC04_decode)
}

// ---- reference bit packer: a 256-bit big-endian accumulator, w[0] least significant, fork-free ----

const c04W = 4

type c04acc struct {
	w [c04W]uint64
	t uint64 // number of bits pushed
}

// push appends the low l bits of code (l in 0..30, code < 1<<l).
func (a *c04acc) push(code, l uint64) {
	for j := c04W - 1; j > 0; j-- {
		a.w[j] = a.w[j]<<l | a.w[j-1]>>(64-l)
	}
	a.w[0] = a.w[0]<<l | code
	a.t += l
}

// byteAt returns bits p..p+7 (p counted from the least significant bit, p%8 == 0).
func (a *c04acc) byteAt(p uint64) byte {
	var r uint64
	for j := 0; j < c04W; j++ {
		r |= vfIteU64(p>>6 == uint64(j), a.w[j]>>(p&63), 0)
	}
	return byte(r)
}

// c04ref packs s and pads with ones to a byte boundary. Returns the accumulator and the padded bit length.
func c04ref(s string) (*c04acc, uint64) {
	a := &c04acc{}
	for i := 0; i < len(s); i++ {
		c := s[i]
		a.push(uint64(huffmanCodes[c]), uint64(huffmanCodeLen[c]))
	}
	padded := (a.t + 7) &^ 7
	pad := padded - a.t
	a.push(uint64(1)<<pad-1, pad)
	return a, padded
}

// ---- table sanity (concrete) ----

func VerifC04_table() {
	// Kraft sum over 2^-len in units of 2^-30: a complete binary code tree minus the EOS leaf (30 bits).
	var kraft uint64
	minLen, maxLen := 255, 0
	for sym := 0; sym < 256; sym++ {
		l := int(huffmanCodeLen[sym])
		vfAssert(l >= 5 && l <= 30, "code length within 5..30")
		vfAssert(uint64(huffmanCodes[sym]) < uint64(1)<<uint(l), "code fits its length")
		kraft += uint64(1) << uint(30-l)
		if l < minLen {
			minLen = l
		}
		if l > maxLen {
			maxLen = l
		}
	}
	vfAssert(kraft == 1<<30-1, "Kraft sum: complete tree minus the EOS leaf")
	vfAssert(minLen == 5 && maxLen == 30, "length range")
	// prefix-free, and no code is a prefix of EOS (30 ones) or vice versa
	for a := 0; a < 256; a++ {
		la, ca := uint(huffmanCodeLen[a]), huffmanCodes[a]
		vfAssert(ca != uint32(1)<<la-1, "no code is all ones (a prefix of EOS)")
		for b := 0; b < 256; b++ {
			lb, cb := uint(huffmanCodeLen[b]), huffmanCodes[b]
			if a != b && la <= lb {
				vfAssert(cb>>(lb-la) != ca, "prefix-free")
			}
		}
	}
	vfObserve("kraft", kraft)
	vfReach("end")
}

// ---- encode direction ----

// c04pinLengths forks over the code length (21 classes) of every symbolic byte: all shift distances and the output
// length become concrete on each path, the code bits stay symbolic. (Without it the solver has to prove two
// different 256-bit barrel-shifter formulations equal, which it cannot do in the budget even for 2 bytes.)
func c04pinLengths(s string) {
	for i := 0; i < len(s); i++ {
		vfConcretize(uint64(huffmanCodeLen[s[i]]))
	}
}

// 5-bit symbols with varied bit patterns; 5 is coprime to 32, so k of them put the encoder in phase 5k mod 32.
const c04five = "a1tes0ioc2a1tes0ioc2a1tes0ioc2a1"

func VerifC04_encode() {
	// quick: every string of <= 2 bytes; 2 symbolic bytes after k = 1..7 concrete 5-bit symbols (phases 5k mod 32)
	// thorough: every string of <= 3 bytes; 2 symbolic bytes in every phase 1..31
	lmax, kmax := 2, 7
	if vfTier() > 0 {
		lmax, kmax = 3, 31
	}
	var pre string
	var L, np int
	if vfChoice("mode", 2) == 0 {
		L = vfLen("len", 0, lmax)
		np = 2 * vfChoice("dstprefix", 2)
	} else {
		pre = c04five[:vfLen("phase", 1, kmax)]
		L = 2
	}
	sym := vfString("s", L)
	c04pinLengths(sym)
	s := pre + sym
	prefix := vfBytes("prefix", np)

	out := AppendHuffmanString(append(make([]byte, 0, 3), prefix...), s)
	vfAssert(len(out) >= np, "output keeps dst")
	enc := out[np:]
	intact := true
	for i := 0; i < np; i++ {
		intact = vfAnd(intact, out[i] == prefix[i])
	}
	vfAssert(intact, "dst prefix intact")

	a, padded := c04ref(s)
	vfAssert(uint64(len(enc))*8 == padded, "encoded length = ceil(sum of code lengths / 8)")
	vfAssert(HuffmanEncodeLength(s) == uint64(len(enc)), "HuffmanEncodeLength == encoded length")
	same := true
	for i := range enc {
		same = vfAnd(same, enc[i] == a.byteAt(padded-8*uint64(i+1)))
	}
	vfAssert(same, "encoded bytes == reference bit packing with all-ones padding")
	if len(enc) > 4 {
		vfReach("flushed")
	}
	if len(enc)%4 == 3 {
		vfReach("tail3")
	}
	vfObserveBytes("enc", enc)
	vfReach("end")
}

// ---- round trip ----

// c04rep[0]: the first symbol of every code length (21 lengths).
var c04rep = func() (t [1][256]bool) {
	var lo [31]int
	for i := range lo {
		lo[i] = -1
	}
	for sym := 0; sym < 256; sym++ {
		l := huffmanCodeLen[sym]
		if lo[l] < 0 {
			lo[l] = sym
		}
	}
	for l := range lo {
		if lo[l] >= 0 {
			t[0][lo[l]] = true
		}
	}
	return
}()

// c04concrete forks over every feasible value of every byte (the decoder's tree walk forks per symbol anyway; with
// concrete bytes no solver call is needed on these paths).
func c04concrete(b []byte) []byte {
	r := make([]byte, len(b))
	for i := range b {
		r[i] = byte(vfConcretize(uint64(b[i])))
	}
	return r
}

func VerifC04_roundtrip() {
	// quick:    every string of <= 1 byte; 2 bytes where one byte is arbitrary and the other is the first symbol of
	//           one of the 21 code lengths (both orders)
	// thorough: every string of <= 2 bytes; 3 bytes over the first symbol of every code length (21^3)
	var b []byte
	th := vfTier() > 0
	switch vfChoice("mode", 3) {
	case 0:
		if th {
			b = vfBytes("s", vfLen("len", 0, 2))
		} else {
			b = vfBytes("s", vfLen("len", 0, 1))
		}
	case 1:
		if th {
			b = vfBytes("s", 3)
			for _, c := range b {
				vfAssume(c04rep[0][c])
			}
		} else {
			b = vfBytes("s", 2)
			vfAssume(c04rep[0][b[0]])
		}
	case 2:
		b = vfBytes("s", 2)
		vfAssume(c04rep[0][b[1]])
		vfAssume(!th) // covered by mode 0 in thorough
	}
	s := string(c04concrete(b))
	enc := AppendHuffmanString(nil, s)
	vfAssert(uint64(len(enc)) == HuffmanEncodeLength(s), "HuffmanEncodeLength == encoded length")
	got, err := HuffmanDecodeToString(enc)
	vfAssert(err == nil, "decoder accepts the encoder's output")
	vfAssert(got == s, "HuffmanDecodeToString(AppendHuffmanString(s)) == s")
	var w bytes.Buffer
	n, err := HuffmanDecode(&w, enc)
	vfAssert(err == nil && n == len(s), "HuffmanDecode count")
	vfAssert(w.String() == s, "HuffmanDecode(AppendHuffmanString(s)) == s")
	vfObserveStr("decoded", got)
	vfReach("end")
}

// ---- decode direction ----

func VerifC04_decode() {
	// The tree walk forks on the child node at every level, and the tail loop on the left-over bits, so every input
	// value is a path of its own: bounds are chosen by path budget.
	// 0..1 bytes: every v. 2 bytes: thorough every v; quick v[0] in {0..3}, {0x0f,0x1f,..,0xff}, {0xfc..0xff}
	// (5/6/7/8-bit first symbols with zero and all-ones left-over bits, both internal nodes), any v[1].
	// Longer inputs start in the long-code region (the multi-level part of the decode tree):
	// 3 bytes with v[0] = 0xff, v[1] >= 0xf8 (thorough: v[1] >= 0x80);
	// 4 bytes with v[0] = v[1] = 0xff, v[2] >= 0xf8 (thorough: v[2] >= 0xc0) - the 4th tree level, EOS, and padding
	// after 25..30-bit codes.
	M := vfLen("len", 0, 4)
	v := vfBytes("v", M)
	th := vfTier() > 0
	switch M {
	case 2:
		if !th {
			vfAssume(vfOr(v[0] < 4, vfOr(v[0]&15 == 15, v[0] >= 0xfc)))
		}
	case 3:
		vfAssume(v[0] == 0xff)
		if th {
			vfAssume(v[1] >= 0x80)
		} else {
			vfAssume(v[1] >= 0xf8)
		}
	case 4:
		vfAssume(v[0] == 0xff)
		vfAssume(v[1] == 0xff)
		if th {
			vfAssume(v[2] >= 0xc0)
		} else {
			vfAssume(v[2] >= 0xf8)
		}
	}
	if M > 1 {
		copy(v, c04concrete(v[:M-1]))
	}
	var buf bytes.Buffer
	err := huffmanDecode(&buf, 0, append([]byte(nil), v...))
	out := buf.Bytes()

	consumed := 0
	for _, c := range out {
		consumed += int(huffmanCodeLen[c])
	}
	r := uint(8*M - consumed) // undecoded trailing bits
	vfAssert(8*M >= consumed, "decoded symbols fit the input")
	var all uint64
	for _, b := range v {
		all = all<<8 | uint64(b)
	}
	rem := all & (uint64(1)<<r - 1)

	if err == nil {
		re := AppendHuffmanString(nil, string(out))
		vfAssert(len(re) == M, "accepted input has the canonical length")
		for i := 0; i < len(re) && i < M; i++ {
			vfAssert(re[i] == v[i], "accepted input is the canonical encoding of its output")
		}
		vfAssert(r < 8, "at most 7 bits of padding")
		vfAssert(rem == uint64(1)<<r-1, "padding is all ones")
		vfObserveBytes("out", out)
		vfReach("accepted")
	} else {
		vfAssert(err == ErrInvalidHuffman, "error is ErrInvalidHuffman")
		// Justified reject: no code is a prefix of the remaining bits (so greedy decoding is really stuck), and the
		// remainder is not a valid padding.
		stuck := true
		for sym := 0; sym < 256; sym++ {
			l := uint(huffmanCodeLen[sym])
			if l <= r {
				stuck = vfAnd(stuck, rem>>(r-l) != uint64(huffmanCodes[sym]))
			}
		}
		vfAssert(stuck, "reject only when no symbol can be decoded from the remaining bits")
		vfAssert(vfNot(vfAnd(r < 8, rem == uint64(1)<<r-1)), "reject only when the remainder is not a valid padding")
		if r >= 30 {
			vfReach("rejected-long-remainder")
		}
		if r < 8 {
			vfReach("rejected-bad-padding")
		}
		vfReach("rejected")
	}
	vfReach("end")
}
