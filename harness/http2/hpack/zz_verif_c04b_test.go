package hpack

import (
	"bytes"
	"sync"
)

// C04 (continued) — "for every byte string s, HuffmanDecode(AppendHuffmanString(s)) returns s" must hold whatever the
// package has been used for before and by whomever: the decoder shares two pieces of package-level state between all
// callers, the lazily built decoding tree (buildRootOnce / lazyRootHuffmanNode) and the buffer pool (bufPool).
//
//   VerifC04_concurrentFirstUse  shape B with the symbolic scheduler: the first Huffman decodes of a process happen
//                                on two goroutines at once (engine knob sched_globals: reads and writes of the
//                                package-level variables are scheduling points, so a goroutine can observe the tree
//                                while another one is building it)
//   VerifC04_sharedPool          shape B: a history of operations of every API that draws from bufPool (engine knob
//                                pool_reuse: Get may return any buffer Put earlier, or a new one), successful and
//                                failing, each checked against its own expected result

func init() {
	vfRegister("VerifC04_concurrentFirstUse", VerifC04_concurrentFirstUse)
	vfRegister("VerifC04_sharedPool", VerifC04_sharedPool)
}

// strings whose codes are 5, 13 and 26+28 bits long (one-level, two-level, four-level walks of the decode tree)
var c04strs = []string{"a", "\x00", "\xff\x16"}

func VerifC04_concurrentFirstUse() {
	// the state of a fresh process (natively the tree may have been built by an earlier harness run)
	buildRootOnce = sync.Once{}
	lazyRootHuffmanNode = nil

	const T = 2
	var ok [T]bool
	done := make(chan int, T)
	for i := 0; i < T; i++ {
		i := i
		s := c04strs[vfChoice("s", len(c04strs))]
		enc := AppendHuffmanString(nil, s)
		// quick: the first goroutine uses HuffmanDecodeToString, the second HuffmanDecode; thorough: chosen
		toString := i == 0
		if vfTier() > 0 {
			toString = vfChoice("api", 2) == 0
		}
		vfGo(func() {
			if toString {
				got, err := HuffmanDecodeToString(enc)
				ok[i] = err == nil && got == s
			} else {
				var w bytes.Buffer
				n, err := HuffmanDecode(&w, enc)
				ok[i] = err == nil && n == len(s) && w.String() == s
			}
			done <- 1
		})
	}
	for i := 0; i < T; i++ {
		<-done
	}
	vfAssert(ok[0], "first goroutine: HuffmanDecode(AppendHuffmanString(s)) == s")
	vfAssert(ok[1], "second goroutine: HuffmanDecode(AppendHuffmanString(s)) == s")
	// afterwards the tree is complete: every symbol decodes
	root := getRootHuffmanNode()
	vfAssert(root != nil && root.children[0xff] != nil && root.children[0] != nil, "decode tree built")
	vfReach("end")
}

func c04huffStr(dst []byte, s string) []byte {
	enc := AppendHuffmanString(nil, s)
	dst = append(dst, 0x80|byte(len(enc)))
	return append(dst, enc...)
}

func VerifC04_sharedPool() {
	// history of k operations (quick 2, thorough 3), each one of
	//   0 HuffmanDecodeToString(enc(s))            1 HuffmanDecode(w, enc(s))
	//   2 HuffmanDecodeToString(invalid code)      3 HuffmanDecode(w, invalid code)
	//   4 Decoder.Write of one literal field whose name and value are Huffman coded (decodeString)
	//   5 Decoder.Write of a literal whose Huffman-coded value is invalid
	// s from {"", "a", "\x00", "\xff\x16"}. Every operation is checked against its own expected result.
	k := 2
	if vfTier() > 0 {
		k = 3
	}
	strs := append([]string{""}, c04strs...)
	bad := []byte{0xff, 0xff, 0xff, 0xff} // EOS inside the data: always invalid
	mixed := false
	prev := -1
	for step := 0; step < k; step++ {
		op := vfChoice("op", 6)
		s := strs[vfChoice("s", len(strs))]
		enc := AppendHuffmanString(nil, s)
		switch op {
		case 0:
			got, err := HuffmanDecodeToString(enc)
			vfAssert(err == nil, "HuffmanDecodeToString accepts the encoder's output")
			vfAssert(got == s, "HuffmanDecodeToString(AppendHuffmanString(s)) == s")
		case 1:
			var w bytes.Buffer
			n, err := HuffmanDecode(&w, enc)
			vfAssert(err == nil && n == len(s), "HuffmanDecode accepts the encoder's output")
			vfAssert(w.String() == s, "HuffmanDecode(AppendHuffmanString(s)) == s")
		case 2:
			got, err := HuffmanDecodeToString(bad)
			vfAssert(err == ErrInvalidHuffman && got == "", "HuffmanDecodeToString rejects EOS")
		case 3:
			var w bytes.Buffer
			n, err := HuffmanDecode(&w, bad)
			vfAssert(err == ErrInvalidHuffman && n == 0 && w.Len() == 0, "HuffmanDecode rejects EOS")
		case 4, 5:
			var fields []HeaderField
			d := NewDecoder(4096, func(f HeaderField) { fields = append(fields, f) })
			block := c04huffStr([]byte{0x00}, "n"+s)
			if op == 4 {
				block = c04huffStr(block, s)
			} else {
				block = append(append(block, 0x80|byte(len(bad))), bad...)
			}
			_, err := d.Write(block)
			if op == 4 {
				vfAssert(err == nil && d.Close() == nil, "Decoder accepts the Huffman-coded literal")
				vfAssert(len(fields) == 1 && fields[0].Name == "n"+s && fields[0].Value == s, "Decoder emits the original strings")
			} else {
				vfAssert(err != nil && len(fields) == 0, "Decoder rejects the invalid Huffman value")
			}
		}
		if prev >= 0 && (prev >= 4) != (op >= 4) {
			mixed = true
		}
		prev = op
	}
	if mixed {
		vfReach("decoder-and-function-api-share-the-pool")
	}
	vfReach("end")
}
