package http2

// C07 — HTTP/2 frame reader validates arbitrary input and never panics.
//
// Shape B. The input is a stream of symbolic bytes behind a bytes.Reader; a fresh Framer with a small
// (symbolic) SetMaxReadFrameSize reads one or two frames. Every implicit run-time check of the real code
// (index/slice bounds, nil, make size, type assertion in readMetaFrame) is discharged by the engine on every
// path = "never panics". Oracle: a reference validator written from RFC 9113 §4.1/§6 (c07model) that is run
// in lock-step and predicts, for every frame, whether ReadFrame returns a frame or which class of error
// (I/O, ErrFrameTooLarge, connection error, stream error); returned frames are compared field by field with
// the input bytes. VerifC07_meta* add a real hpack.Decoder (ReadMetaHeaders) and checks the documented
// guarantees of MetaHeadersFrame against an independent second decoder plus RFC 9113 §8.2/§8.3 field rules.
//
// Sensitivity (sh mut.sh, each reported as VIOLATION and confirmed natively):
//   - checkFrameOrder  `fh.StreamID != fr.lastHeaderStream` -> `false`        caught by VerifC07_two (error class)
//   - ReadFrameHeader  `fh.Length > fr.maxReadSize` -> `> fr.maxReadSize+1`   caught by VerifC07_single (error class)
//   - parseDataFrame   `int(padSize) > len(payload)` -> `> len(payload)+1`    caught by VerifC07_single (slice bounds panic)
//   - readMetaFrame    pseudo-after-regular no longer sets `invalid`          caught by VerifC07_metafields (field order)
//   - readMetaFrame    `size > remainSize` -> `>=`                            caught by VerifC07_metasize (Truncated only if next field does not fit)
//
// No finding inside the C07 statement on the unchanged tree. Observation outside it (repro/C07): with
// MaxHeaderListSize >= 2^31 `2*remainSize` in readMetaFrame wraps around in uint32 and well-formed small header
// blocks are rejected with PROTOCOL_ERROR; the completeness assertion below therefore excludes that range.

import (
	"bytes"
	"errors"
	"io"

	"golang.org/x/net/http2/hpack"
)

func init() {
	vfRegister("VerifC07_single", VerifC07_single)
	vfRegister("VerifC07_two", VerifC07_two)
	vfRegister("VerifC07_metafields", VerifC07_metafields)
	vfRegister("VerifC07_metasize", VerifC07_metasize)
	vfRegister("VerifC07_metasplit", VerifC07_metasplit)
}

const c07MaxM = 16 // SetMaxReadFrameSize is symbolic in 0..c07MaxM

// error classes
const (
	c07OK       = iota
	c07IO       // io.EOF / io.ErrUnexpectedEOF (short input, or a frame too short for its own pad/priority fields)
	c07TooLarge // ErrFrameTooLarge
	c07Conn     // ConnectionError
	c07Stream   // StreamError (the only non-terminal class)
	c07Other
)

func c07classify(err error) int {
	if err == nil {
		return c07OK
	}
	if errors.Is(err, io.EOF) || errors.Is(err, io.ErrUnexpectedEOF) {
		return c07IO
	}
	if errors.Is(err, ErrFrameTooLarge) {
		return c07TooLarge
	}
	if _, ok := err.(ConnectionError); ok {
		return c07Conn
	}
	if _, ok := err.(StreamError); ok {
		return c07Stream
	}
	return c07Other
}

// c07model is the reference reader state: RFC 9113 §4.3/§6.10 header-block contiguity.
type c07model struct {
	strict     bool   // !AllowIllegalReads
	max        uint32 // SetMaxReadFrameSize
	contStream uint32 // non-zero: a header block is open on this stream
}

type c07frame struct {
	class   int // expected c07* class
	typ     FrameType
	flags   Flags
	sid     uint32
	length  int
	payload []byte // when the whole frame was available
	next    []byte // remaining stream after this frame (when the payload was consumed)
}

func c07be32(b []byte) uint32 {
	return uint32(b[0])<<24 | uint32(b[1])<<16 | uint32(b[2])<<8 | uint32(b[3])
}

// next predicts the outcome of one ReadFrame on stream b. It branches on symbolic bytes exactly where any
// frame parser has to (type, flags, lengths); lengths are concrete on every path once the real reader ran.
func (m *c07model) next(b []byte) c07frame {
	var f c07frame
	if len(b) < frameHeaderLen {
		f.class = c07IO
		return f
	}
	f.length = int(b[0])<<16 | int(b[1])<<8 | int(b[2])
	f.typ, f.flags, f.sid = FrameType(b[3]), Flags(b[4]), c07be32(b[5:9])&(1<<31-1)
	if uint32(f.length) > m.max {
		f.class = c07TooLarge
		return f
	}
	if m.strict {
		if m.contStream != 0 {
			if f.typ != FrameContinuation || f.sid != m.contStream {
				f.class = c07Conn
				return f
			}
		} else if f.typ == FrameContinuation {
			f.class = c07Conn
			return f
		}
		if f.typ == FrameHeaders || f.typ == FrameContinuation {
			if f.flags&0x4 != 0 {
				m.contStream = 0
			} else {
				m.contStream = f.sid
			}
		}
	}
	if len(b)-frameHeaderLen < f.length {
		f.class = c07IO
		return f
	}
	p := b[frameHeaderLen : frameHeaderLen+f.length]
	f.payload, f.next = p, b[frameHeaderLen+f.length:]
	n := f.length
	padded := f.flags&0x8 != 0
	switch f.typ {
	case FrameData:
		if f.sid == 0 {
			f.class = c07Conn
		} else if padded {
			if n < 1 {
				f.class = c07IO
			} else if int(p[0]) > n-1 {
				f.class = c07Conn
			}
		}
	case FrameHeaders:
		need := 0
		if padded {
			need++
		}
		if f.flags&0x20 != 0 {
			need += 5
		}
		if f.sid == 0 {
			f.class = c07Conn
		} else if n < need {
			f.class = c07IO
		} else if padded && int(p[0]) > n-need {
			f.class = c07Stream
		}
	case FramePriority:
		if f.sid == 0 || n != 5 {
			f.class = c07Conn
		}
	case FrameRSTStream:
		if f.sid == 0 || n != 4 {
			f.class = c07Conn
		}
	case FrameSettings:
		if f.sid != 0 || n%6 != 0 || (f.flags&0x1 != 0 && n > 0) {
			f.class = c07Conn
		} else {
			for i := 0; i+6 <= n; i += 6 {
				if p[i] == 0 && p[i+1] == byte(SettingInitialWindowSize) {
					if c07be32(p[i+2:i+6]) > 1<<31-1 {
						f.class = c07Conn
					}
					break // the reader validates the first occurrence (later ones are the connection's business)
				}
			}
		}
	case FramePushPromise:
		need := 4
		if padded {
			need++
		}
		if f.sid == 0 {
			f.class = c07Conn
		} else if n < need {
			f.class = c07IO
		} else if padded && int(p[0]) > n-need {
			f.class = c07Conn
		}
	case FramePing:
		if f.sid != 0 || n != 8 {
			f.class = c07Conn
		}
	case FrameGoAway:
		if f.sid != 0 || n < 8 {
			f.class = c07Conn
		}
	case FrameWindowUpdate:
		if n != 4 {
			f.class = c07Conn
		} else if c07be32(p)&(1<<31-1) == 0 {
			if f.sid == 0 {
				f.class = c07Conn
			} else {
				f.class = c07Stream
			}
		}
	case FrameContinuation:
		if f.sid == 0 {
			f.class = c07Conn
		}
	case FramePriorityUpdate:
		if f.sid != 0 || n < 4 || c07be32(p)&(1<<31-1) == 0 {
			f.class = c07Conn
		}
	}
	return f
}

func c07eq(a, b []byte) bool {
	if len(a) != len(b) {
		return false
	}
	ok := true
	for i := range a {
		ok = vfAnd(ok, a[i] == b[i])
	}
	return ok
}

// c07check compares one ReadFrame result with the reference prediction and the input bytes.
func c07check(fr *Framer, m *c07model, got Frame, err error, want c07frame) {
	class := c07classify(err)
	vfAssert(class != c07Other, "error is an I/O error, ErrFrameTooLarge, ConnectionError or StreamError")
	vfAssert(class == want.class, "frame accepted / rejected with the error class RFC 9113 prescribes")
	if class != want.class {
		return
	}
	if se, ok := err.(StreamError); ok {
		vfAssert(se.StreamID == want.sid && want.sid != 0, "stream error names the frame's stream")
	}
	if err != nil {
		vfAssert(got == nil, "no frame together with an error (without ReadMetaHeaders)")
		return
	}
	h := got.Header()
	vfAssert(h.Length <= m.max, "frame not longer than the configured maximum read size")
	vfAssert(h.Type == want.typ && h.Flags == want.flags && h.StreamID == want.sid && int(h.Length) == want.length, "frame header fields")
	p := want.payload
	padded := want.flags&0x8 != 0
	switch f := got.(type) {
	case *DataFrame:
		vfAssert(want.typ == FrameData && want.sid != 0, "DATA on a non-zero stream")
		if padded {
			p = p[1 : len(p)-int(p[0])]
		}
		vfAssert(c07eq(f.Data(), p), "DATA payload without padding")
		vfReach("data")
	case *HeadersFrame:
		vfAssert(want.typ == FrameHeaders && want.sid != 0, "HEADERS on a non-zero stream")
		pad := 0
		if padded {
			pad, p = int(p[0]), p[1:]
		}
		var pr PriorityParam
		if want.flags&0x20 != 0 {
			v := c07be32(p)
			pr = PriorityParam{StreamDep: v & (1<<31 - 1), Exclusive: v&(1<<31) != 0, Weight: p[4]}
			p = p[5:]
		}
		vfAssert(f.Priority.StreamDep == pr.StreamDep && f.Priority.Exclusive == pr.Exclusive && f.Priority.Weight == pr.Weight, "HEADERS priority fields")
		vfAssert(c07eq(f.HeaderBlockFragment(), p[:len(p)-pad]), "HEADERS fragment without padding")
		vfReach("headers")
	case *PriorityFrame:
		vfAssert(want.typ == FramePriority && want.sid != 0 && len(p) == 5, "PRIORITY: 5 bytes on a non-zero stream")
		v := c07be32(p)
		vfAssert(f.StreamDep == v&(1<<31-1) && f.Exclusive == (v&(1<<31) != 0) && f.Weight == p[4], "PRIORITY fields")
	case *RSTStreamFrame:
		vfAssert(want.typ == FrameRSTStream && want.sid != 0 && len(p) == 4, "RST_STREAM: 4 bytes on a non-zero stream")
		vfAssert(uint32(f.ErrCode) == c07be32(p), "RST_STREAM error code")
	case *SettingsFrame:
		vfAssert(want.typ == FrameSettings && want.sid == 0 && len(p)%6 == 0, "SETTINGS: multiple of 6 bytes on stream 0")
		vfAssert(f.NumSettings() == len(p)/6, "number of settings")
		for i := 0; i < f.NumSettings(); i++ {
			s := f.Setting(i)
			vfAssert(uint16(s.ID) == uint16(p[6*i])<<8|uint16(p[6*i+1]) && s.Val == c07be32(p[6*i+2:]), "setting")
		}
		vfReach("settings")
	case *PushPromiseFrame:
		vfAssert(want.typ == FramePushPromise && want.sid != 0, "PUSH_PROMISE on a non-zero stream")
		pad := 0
		if padded {
			pad, p = int(p[0]), p[1:]
		}
		vfAssert(f.PromiseID == c07be32(p)&(1<<31-1), "promised stream id")
		vfAssert(c07eq(f.HeaderBlockFragment(), p[4:len(p)-pad]), "PUSH_PROMISE fragment without padding")
	case *PingFrame:
		vfAssert(want.typ == FramePing && want.sid == 0 && len(p) == 8, "PING: 8 bytes on stream 0")
		vfAssert(c07eq(f.Data[:], p), "PING data")
	case *GoAwayFrame:
		vfAssert(want.typ == FrameGoAway && want.sid == 0 && len(p) >= 8, "GOAWAY: at least 8 bytes on stream 0")
		vfAssert(f.LastStreamID == c07be32(p)&(1<<31-1) && uint32(f.ErrCode) == c07be32(p[4:]), "GOAWAY fields")
		vfAssert(c07eq(f.DebugData(), p[8:]), "GOAWAY debug data")
	case *WindowUpdateFrame:
		vfAssert(want.typ == FrameWindowUpdate && len(p) == 4, "WINDOW_UPDATE: 4 bytes")
		vfAssert(f.Increment == c07be32(p)&(1<<31-1) && f.Increment != 0, "WINDOW_UPDATE increment is non-zero, 31 bits")
	case *ContinuationFrame:
		vfAssert(want.typ == FrameContinuation && want.sid != 0, "CONTINUATION on a non-zero stream")
		vfAssert(c07eq(f.HeaderBlockFragment(), p), "CONTINUATION fragment")
		vfReach("continuation")
	case *PriorityUpdateFrame:
		vfAssert(want.typ == FramePriorityUpdate && want.sid == 0 && len(p) >= 4, "PRIORITY_UPDATE: at least 4 bytes on stream 0")
		vfAssert(f.PrioritizedStreamID == c07be32(p)&(1<<31-1) && f.PrioritizedStreamID != 0, "prioritized stream id")
		vfAssert(c07eq([]byte(f.Priority), p[4:]), "priority field value")
	case *UnknownFrame:
		t := want.typ
		vfAssert((t >= 0x0a && t <= 0x0f) || t >= 0x11, "only types without a parser are returned as UnknownFrame")
		vfAssert(c07eq(f.Payload(), p), "unknown frame payload")
		vfReach("unknown")
	default:
		vfAssert(false, "unexpected frame type returned")
	}
}

func c07P() int {
	if vfTier() > 0 {
		return 8
	}
	return 5
}

func c07framer(stream []byte, symMax bool) (*Framer, *c07model) {
	fr := NewFramer(nil, bytes.NewReader(stream))
	max := uint32(c07MaxM)
	if symMax {
		max = vfU32("maxread")
		vfAssume(max <= c07MaxM)
	}
	fr.SetMaxReadFrameSize(max)
	fr.AllowIllegalReads = vfBool("illegalreads")
	return fr, &c07model{strict: !fr.AllowIllegalReads, max: max}
}

// One frame from 0..9+P arbitrary bytes.
func VerifC07_single() {
	n := vfLen("n", 0, frameHeaderLen+c07P())
	stream := vfBytes("stream", n)
	fr, m := c07framer(stream, true)
	got, err := fr.ReadFrame()
	want := m.next(stream)
	c07check(fr, m, got, err, want)
	vfObserve("class", uint64(c07classify(err)))
	if err == nil {
		vfObserve("type", uint64(got.Header().Type))
		vfReach("accepted")
	}
	vfReach("end")
}

// Two frames of 9+p1 and 9+p2 bytes (both length fields say so; max read size 16). The first frame is DATA,
// HEADERS or CONTINUATION with arbitrary flags/stream/payload, the second is arbitrary (any type byte).
// Reading continues after a frame or a stream error, as the server and transport read loops do.
func VerifC07_two() {
	pm := 2
	if vfTier() > 0 {
		pm = 3
	}
	p1, p2 := vfLen("p1", 0, pm), vfLen("p2", 0, pm)
	stream := vfBytes("stream", 2*frameHeaderLen+p1+p2)
	vfAssume(vfAnd(stream[0] == 0, vfAnd(stream[1] == 0, int(stream[2]) == p1)))
	h2 := stream[frameHeaderLen+p1:]
	vfAssume(vfAnd(h2[0] == 0, vfAnd(h2[1] == 0, int(h2[2]) == p2)))
	t1 := FrameType(stream[3])
	vfAssume(vfOr(t1 == FrameData, vfOr(t1 == FrameHeaders, t1 == FrameContinuation)))
	fr, m := c07framer(stream, false)
	rest := stream
	for i := 0; i < 2; i++ {
		openBefore := m.contStream
		got, err := fr.ReadFrame()
		want := m.next(rest)
		c07check(fr, m, got, err, want)
		if err == nil && m.strict {
			// the contiguity rule, stated directly
			_, isCont := got.(*ContinuationFrame)
			vfAssert(isCont == (openBefore != 0), "CONTINUATION is returned exactly while a header block is open")
			if isCont {
				vfAssert(got.Header().StreamID == openBefore, "CONTINUATION on the stream of the open header block")
				if i == 1 {
					vfReach("headers+continuation")
				}
			}
		}
		if err != nil && m.strict && openBefore != 0 && i == 1 && c07classify(err) == c07Conn {
			vfReach("interleaved-rejected")
		}
		if c07classify(err) != c07OK && c07classify(err) != c07Stream {
			break
		}
		rest = want.next
		if i == 1 {
			vfReach("two-frames")
		}
	}
	vfReach("end")
}

// ---------------------------------------------------------------------------------------------------
// ReadMetaHeaders

// c07tchar: RFC 9110 §5.6.2 token character, fork-free.
func c07tchar(c byte) bool {
	alnum := vfOr(vfAnd(c >= '0', c <= '9'), vfOr(vfAnd(c >= 'a', c <= 'z'), vfAnd(c >= 'A', c <= 'Z')))
	sp := false
	for _, x := range []byte("!#$%&'*+-.^_`|~") {
		sp = vfOr(sp, c == x)
	}
	return vfOr(alnum, sp)
}

// c07nameOK: RFC 9113 §8.2.1 field name: non-empty token without upper-case letters.
func c07nameOK(name string) bool {
	if len(name) == 0 {
		return false
	}
	ok := true
	for i := 0; i < len(name); i++ {
		c := name[i]
		ok = vfAnd(ok, vfAnd(c07tchar(c), vfNot(vfAnd(c >= 'A', c <= 'Z'))))
	}
	return ok
}

// c07valueOK: no control characters other than HTAB (the rule ValidHeaderFieldValue documents; RFC 9113
// §8.2.1 only requires NUL/CR/LF to be rejected, so this is the stricter, documented guarantee).
func c07valueOK(v string) bool {
	ok := true
	for i := 0; i < len(v); i++ {
		c := v[i]
		ok = vfAnd(ok, vfOr(c == '\t', vfAnd(c >= 0x20, c != 0x7f)))
	}
	return ok
}

func c07isPseudo(name string) bool {
	if len(name) == 0 {
		return false
	}
	return name[0] == ':'
}

func c07isReqPseudo(name string) bool {
	return vfOr(name == ":method", vfOr(name == ":path", vfOr(name == ":scheme", vfOr(name == ":authority", name == ":protocol"))))
}

// c07defects evaluates the MetaHeadersFrame field guarantees on a field list (fork-free):
// order (pseudo before regular), known pseudo names, no duplicate pseudo, no request/response mix, names, values.
func c07defects(fields []hpack.HeaderField) (order, known, dup, mix, names, values bool) {
	seenRegular, isReq, isResp := false, false, false
	for i, f := range fields {
		ps := c07isPseudo(f.Name)
		order = vfOr(order, vfAnd(ps, seenRegular))
		req, resp := c07isReqPseudo(f.Name), f.Name == ":status"
		known = vfOr(known, vfAnd(ps, vfNot(vfOr(req, resp))))
		for j := 0; j < i; j++ {
			dup = vfOr(dup, vfAnd(ps, fields[j].Name == f.Name))
		}
		isReq, isResp = vfOr(isReq, vfAnd(ps, req)), vfOr(isResp, vfAnd(ps, resp))
		names = vfOr(names, vfAnd(vfNot(ps), vfNot(c07nameOK(f.Name))))
		values = vfOr(values, vfNot(c07valueOK(f.Value)))
		seenRegular = vfOr(seenRegular, vfNot(ps))
	}
	mix = vfAnd(isReq, isResp)
	return
}

// c07field appends one HPACK field representation; index, name and value bytes are symbolic within the stated
// sets (string lengths are concrete, Huffman bit clear). rich=false restricts to shapes whose content is always
// valid (used where the subject is size accounting / framing, not field validation).
func c07field(b []byte, rich bool) []byte {
	k := 2
	if rich {
		k = 3
	}
	switch vfChoice("repr", k) {
	case 0: // indexed field: 0 invalid, 2/3 both :method, 8 :status, 15 regular, 62 first dynamic entry
		idx := vfU8("index")
		if rich {
			vfAssume(vfOr(idx == 0, vfOr(idx == 2, vfOr(idx == 3, vfOr(idx == 8, vfOr(idx == 15, idx == 62))))))
		} else {
			vfAssume(vfOr(idx == 2, vfOr(idx == 15, idx == 62)))
		}
		b = append(b, 0x80|idx)
	case 1: // literal with indexed name: incremental (01xxxxxx) name 1 (:authority) or 15 (accept-charset), or
		// without/never indexed (000?xxxx) name 8 (:status); value of 0..2 symbolic bytes
		fb := vfU8("first")
		if rich {
			vfAssume(vfOr(fb == 0x41, vfOr(fb == 0x4f, vfOr(fb == 0x08, fb == 0x18))))
			b = c07str(append(b, fb), "value", 1+vfTier(), false)
		} else {
			vfAssume(vfOr(fb == 0x4f, fb == 0x0f))
			b = c07str(append(b, fb), "value", 2, true)
		}
	case 2: // literal with new name of 1..2 symbolic bytes and empty value
		fb := vfU8("first")
		vfAssume(vfOr(fb == 0x40, fb == 0x10))
		b = append(b, fb)
		nl := vfLen("namelen", 1, 2)
		b = append(b, byte(nl))
		b = append(b, vfBytes("name", nl)...)
		b = c07str(b, "value", 0, false)
	}
	return b
}

func c07str(b []byte, label string, max int, printable bool) []byte {
	l := vfLen(label+"len", 0, max)
	b = append(b, byte(l))
	v := vfBytes(label, l)
	if printable {
		for _, c := range v {
			vfAssume(vfAnd(c >= 0x20, c < 0x7f))
		}
	}
	return append(b, v...)
}

func c07hdr(b []byte, length int, t FrameType, flags Flags, sid uint32) []byte {
	return append(b, byte(length>>16), byte(length>>8), byte(length), byte(t), byte(flags),
		byte(sid>>24), byte(sid>>16), byte(sid>>8), byte(sid))
}

// Field validation: one HEADERS frame with END_HEADERS, default MaxHeaderListSize; block = up to 2 generated
// fields of every shape (thorough: longer values, or 3 indexed fields), or 1..2 (thorough 3) raw bytes.
func VerifC07_metafields() {
	var block []byte
	if vfChoice("mode", 2) == 0 {
		k := vfLen("fields", 0, 2+vfTier())
		for i := 0; i < k; i++ {
			if k == 3 {
				// three fields (thorough): indexed representations only
				idx := vfU8("index")
				vfAssume(vfOr(idx == 0, vfOr(idx == 2, vfOr(idx == 3, vfOr(idx == 8, vfOr(idx == 15, idx == 62))))))
				block = append(block, 0x80|idx)
				continue
			}
			block = c07field(block, true)
		}
	} else {
		// raw bytes; index-bearing first bytes restricted to boundary indices as in C03 (61 static entries = 61 paths per byte)
		block = vfBytes("raw", vfLen("rawlen", 1, 2+vfTier()))
		for _, x := range block {
			i7, i6, i4 := x&0x7f, x&0x3f, x&0x0f
			ok7 := vfOr(i7 <= 2, vfOr(vfAnd(i7 >= 61, i7 <= 63), i7 == 127))
			ok6 := vfOr(i6 <= 2, vfAnd(i6 >= 61, i6 <= 63))
			ok4 := vfOr(i4 <= 2, i4 == 15)
			vfAssume(vfOr(vfAnd(x >= 0x80, ok7), vfOr(vfAnd(vfAnd(x >= 0x40, x < 0x80), ok6), vfOr(vfAnd(x >= 0x20, x < 0x40), vfAnd(x < 0x20, ok4)))))
		}
	}
	out := c07meta(block, len(block)+1, false, false)
	if out.malformed {
		vfReach("malformed-rejected")
	}
	if out.twoFields {
		vfReach("two-fields-accepted")
	}
	vfReach("end")
}

// Size accounting: 0..2 (thorough 0..3) always-valid fields, MaxHeaderListSize fully symbolic, one HEADERS frame or a split at
// the first byte / the end with a correct CONTINUATION.
func VerifC07_metasize() {
	var block []byte
	k := vfLen("fields", 0, 2+vfTier())
	for i := 0; i < k; i++ {
		block = c07field(block, false)
	}
	split := len(block) + 1
	switch vfChoice("split", 3) {
	case 1:
		split = min(1, len(block))
	case 2:
		split = len(block)
	}
	out := c07meta(block, split, true, true)
	if out.truncated {
		vfReach("truncated")
	}
	if out.accepted && out.continued && out.twoFields {
		vfReach("continued-accepted")
	}
	vfReach("end")
}

// Framing: 0..2 always-valid fields split at every position; the second frame has an arbitrary type out of
// CONTINUATION/DATA/HEADERS, arbitrary flags and stream id; MaxHeaderListSize symbolic.
func VerifC07_metasplit() {
	var block []byte
	k := vfLen("fields", 0, 2)
	for i := 0; i < k; i++ {
		block = c07field(block, false)
	}
	out := c07meta(block, vfLen("split", 0, len(block)), true, false)
	if out.badCont {
		vfReach("bad-continuation-rejected")
	}
	if out.accepted {
		vfReach("continued-accepted")
	}
	vfReach("end")
}

// c07meta sends block in a HEADERS frame (split > len(block)) or HEADERS + a second frame (block[:split],
// block[split:]) to a Framer with ReadMetaHeaders and checks the result.
type c07out struct{ malformed, badCont, truncated, accepted, twoFields, continued bool }

func c07meta(block []byte, split int, symMHLS, goodCont bool) (out c07out) {
	vfAssume(len(block) <= c07MaxM)
	sid := vfU32("sid")
	vfAssume(vfAnd(sid != 0, sid < 1<<31)) // stream 0 / reserved bit: VerifC07_single
	flags := Flags(vfU8("flags"))
	vfAssume(flags&(FlagHeadersPadded|FlagHeadersPriority) == 0) // padding/priority parsing: VerifC07_single
	var stream []byte
	var t2 FrameType
	var flags2 Flags
	var sid2 uint32
	if split > len(block) {
		stream = append(c07hdr(nil, len(block), FrameHeaders, flags, sid), block...)
		vfAssume(flags&FlagHeadersEndHeaders != 0) // without it the stream just ends: see the split case with an empty rest
	} else {
		vfAssume(flags&FlagHeadersEndHeaders == 0)
		t2, flags2, sid2 = FrameType(vfU8("type2")), Flags(vfU8("flags2")), vfU32("sid2")
		if goodCont {
			vfAssume(vfAnd(t2 == FrameContinuation, vfAnd(sid2 == sid, flags2&FlagContinuationEndHeaders != 0)))
		} else {
			vfAssume(vfOr(t2 == FrameContinuation, vfOr(t2 == FrameData, t2 == FrameHeaders)))
			vfAssume(sid2 < 1<<31)
		}
		stream = append(c07hdr(nil, split, FrameHeaders, flags, sid), block[:split]...)
		stream = append(c07hdr(stream, len(block)-split, t2, flags2, sid2), block[split:]...)
	}

	fr := NewFramer(nil, bytes.NewReader(stream))
	fr.SetMaxReadFrameSize(c07MaxM)
	fr.ReadMetaHeaders = hpack.NewDecoder(4096, nil)
	var mhls uint32
	if symMHLS {
		mhls = vfU32("maxheaderlistsize")
	}
	fr.MaxHeaderListSize = mhls
	limit := vfIteU32(mhls == 0, 16<<20, mhls)

	got, err := fr.ReadFrame()
	class := c07classify(err)
	vfAssert(class != c07Other && class != c07TooLarge, "error is an I/O error, ConnectionError or StreamError")
	vfObserve("class", uint64(class))

	// independent decode of the whole block
	ref, rerr := hpack.NewDecoder(4096, nil).DecodeFull(block)
	contOK := split > len(block) || (t2 == FrameContinuation && sid2 == sid && flags2&FlagContinuationEndHeaders != 0)

	if err != nil {
		if se, ok := err.(StreamError); ok {
			vfAssert(se.StreamID == sid, "stream error names the HEADERS stream")
			vfAssert(rerr == nil && contOK, "stream error only for a complete, decodable header block")
			order, known, dup, mix, names, values := c07defects(ref)
			vfAssert(vfOr(order, vfOr(known, vfOr(dup, vfOr(mix, vfOr(names, values))))), "stream error only if some field breaks a rule")
			out.malformed = true
		}
		if class == c07Conn && !contOK && split <= len(block) {
			out.badCont = true
		}
		// completeness: a complete, decodable block without defects that fits the limit is not rejected
		if rerr == nil && contOK {
			order, known, dup, mix, names, values := c07defects(ref)
			bad := vfOr(order, vfOr(known, vfOr(dup, vfOr(mix, vfOr(names, values)))))
			var total uint32
			for _, f := range ref {
				total += uint32(len(f.Name) + len(f.Value) + 32)
			}
			// mhls >= 2^31 is excluded: `2*remainSize` in readMetaFrame wraps around in uint32 there and non-empty
			// blocks are rejected (reported to the lead; availability only, outside the C07 statement).
			vfAssert(vfOr(bad, vfOr(total > limit, mhls >= 1<<31)), "well-formed header block within MaxHeaderListSize is accepted")
		}
		return
	}
	mh, ok := got.(*MetaHeadersFrame)
	vfAssert(ok, "HEADERS is returned as *MetaHeadersFrame")
	vfAssert(contOK, "accepted only if HEADERS/CONTINUATION are contiguous on one stream and END_HEADERS was seen")
	vfAssert(rerr == nil, "accepted only if the block is valid HPACK")
	h := mh.Header()
	vfAssert(h.Type == FrameHeaders && h.StreamID == sid && h.Flags == flags, "header of the HEADERS frame")
	vfAssert(h.Length <= c07MaxM, "frame not longer than the configured maximum read size")

	order, known, dup, mix, names, values := c07defects(mh.Fields)
	vfAssert(vfNot(order), "pseudo-header fields precede regular fields")
	vfAssert(vfNot(known), "no unknown pseudo-header field")
	vfAssert(vfNot(dup), "no duplicate pseudo-header field")
	vfAssert(vfNot(mix), "no mix of request and response pseudo-header fields")
	vfAssert(vfNot(names), "only valid field names")
	vfAssert(vfNot(values), "only valid field values")

	var sum uint32
	for _, f := range mh.Fields {
		sum += uint32(len(f.Name) + len(f.Value) + 32)
	}
	vfAssert(sum <= limit, "header list within MaxHeaderListSize")

	// the returned fields are exactly the decoded fields, or a prefix of them when Truncated
	vfAssert(len(mh.Fields) <= len(ref), "no invented fields")
	if len(mh.Fields) <= len(ref) {
		same := true
		for i, f := range mh.Fields {
			same = vfAnd(same, vfAnd(f.Name == ref[i].Name, f.Value == ref[i].Value))
		}
		vfAssert(same, "fields are the decoded fields, in order")
		if mh.Truncated {
			vfAssert(len(mh.Fields) < len(ref), "Truncated only if a field was dropped")
			if len(mh.Fields) < len(ref) {
				nx := ref[len(mh.Fields)]
				vfAssert(sum+uint32(len(nx.Name)+len(nx.Value)+32) > limit, "Truncated only if the next field does not fit")
			}
			out.truncated = true
		} else {
			vfAssert(len(mh.Fields) == len(ref), "all fields present unless Truncated")
		}
	}
	out.twoFields = len(mh.Fields) >= 2
	out.continued = split <= len(block)
	out.accepted = true
	vfObserve("nfields", uint64(len(mh.Fields)))
	return
}
