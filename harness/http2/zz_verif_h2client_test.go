package http2

// Shared state builders for the CLIENT-side kernel harnesses (C09, C17, C18 and the client halves of C10/C11).
// The ClientConn is built by hand with the same field values newClientConn assigns (transport.go), minus the
// net.Conn, the read-loop goroutine and the idle timer. Everything the client writes goes through the real Framer
// and a real bufio.Writer into h2cConn.out, from where the harness parses it back with a second Framer.

import (
	"bufio"
	"bytes"
	"context"
	"sync"
	"time"

	"golang.org/x/net/http2/hpack"
)

type h2cConn struct {
	cc  *ClientConn
	rl  *clientConnReadLoop
	out *bytes.Buffer // bytes "on the wire", client -> server
	rd  *Framer       // parses out
}

const (
	h2cConnRecvWindow   = transportDefaultConnFlow + initialWindowSize // what newClientConn advertises for the connection
	h2cStreamRecvWindow = transportDefaultStreamFlow
)

func h2cNewConn() *h2cConn {
	out := new(bytes.Buffer)
	cc := &ClientConn{
		t:                           &Transport{},
		readerDone:                  make(chan struct{}),
		nextStreamID:                1,
		maxFrameSize:                16 << 10,
		initialWindowSize:           65535,
		initialStreamRecvWindowSize: h2cStreamRecvWindow,
		maxConcurrentStreams:        initialMaxConcurrentStreams,
		peerMaxHeaderListSize:       0xffffffffffffffff,
		streams:                     make(map[uint32]*clientStream),
		seenSettingsChan:            make(chan struct{}),
		wantSettingsAck:             true,
		pings:                       make(map[[8]byte]chan struct{}),
		reqHeaderMu:                 make(chan struct{}, 1),
	}
	cc.cond = sync.NewCond(&cc.mu)
	cc.flow.add(int32(initialWindowSize))
	cc.bw = bufio.NewWriter(out)
	cc.fr = NewFramer(cc.bw, nil)
	cc.henc = hpack.NewEncoder(&cc.hbuf)
	cc.peerMaxHeaderTableSize = initialHeaderTableSize
	cc.inflow.init(h2cConnRecvWindow)
	h := &h2cConn{cc: cc, out: out}
	h.rl = &clientConnReadLoop{cc: cc}
	h.rd = NewFramer(nil, out)
	return h
}

// h2cNewStream makes a clientStream the way internalRoundTrip does (no request body, background context).
func h2cNewStream(cc *ClientConn) *clientStream {
	return &clientStream{
		cc:                   cc,
		ctx:                  context.Background(),
		reqBodyContentLength: 0,
		peerClosed:           make(chan struct{}),
		abort:                make(chan struct{}),
		respHeaderRecv:       make(chan struct{}),
		donec:                make(chan struct{}),
	}
}

// h2cPutStream registers cs under an explicit (hand-chosen) stream ID, doing what addStreamLocked does except for
// taking the ID from cc.nextStreamID.
func h2cPutStream(cc *ClientConn, cs *clientStream, id uint32) {
	cs.flow.add(int32(cc.initialWindowSize))
	cs.flow.setConnFlow(&cc.flow)
	cs.inflow.init(cc.initialStreamRecvWindowSize)
	cs.ID = id
	cc.streams[id] = cs
}

func h2cAborted(cs *clientStream) bool {
	select {
	case <-cs.abort:
		return true
	default:
		return false
	}
}

func h2cSettingsFrame(ss ...Setting) *SettingsFrame {
	p := make([]byte, 0, 6*len(ss))
	for _, s := range ss {
		p = append(p, byte(s.ID>>8), byte(s.ID), byte(s.Val>>24), byte(s.Val>>16), byte(s.Val>>8), byte(s.Val))
	}
	return &SettingsFrame{FrameHeader: FrameHeader{valid: true, Type: FrameSettings, Length: uint32(len(p))}, p: p}
}

// h2cSettle makes native replays of scheduler-dependent counterexamples reproducible: natively it polls until cond
// holds (at most 2 s), so that e.g. a waiter is parked in Cond.Wait before the waking event is delivered. In the
// engine it does nothing: every interleaving is explored there anyway.
func h2cSettle(cond func() bool) {
	if vfSymbolic() {
		return
	}
	for i := 0; i < 2000 && !cond(); i++ {
		time.Sleep(time.Millisecond)
	}
}

// h2cAwait waits for done. In the engine it is a plain receive (with vfNoDeadlock a goroutine that is never woken is
// a deadlock violation); natively a lost wake-up shows up as the assertion failing after 2 s instead of a hang.
func h2cAwait(done chan struct{}, label string) {
	if vfSymbolic() {
		<-done
		return
	}
	select {
	case <-done:
	case <-time.After(2 * time.Second):
		vfAssert(false, label)
	}
}

// h2cPause lets the other goroutines of a native replay run until they block (30 ms); no-op in the engine.
func h2cPause() {
	if !vfSymbolic() {
		time.Sleep(30 * time.Millisecond)
	}
}

// h2cGhost collects assertion failures raised on goroutines other than the harness's main goroutine. In the engine
// the assertion fires where it stands; natively (where a panic on a spawned goroutine would kill the test binary) the
// first failure is recorded and re-raised by h2cGhost.report on the main goroutine.
type h2cGhost struct {
	mu     sync.Mutex
	failed string
}

func (g *h2cGhost) assert(cond bool, label string) {
	if vfSymbolic() {
		vfAssert(cond, label)
		return
	}
	if !cond {
		g.mu.Lock()
		if g.failed == "" {
			g.failed = label
		}
		g.mu.Unlock()
	}
}

func (g *h2cGhost) report() {
	if vfSymbolic() {
		return
	}
	g.mu.Lock()
	f := g.failed
	g.mu.Unlock()
	if f != "" {
		vfAssert(false, f)
	}
}
