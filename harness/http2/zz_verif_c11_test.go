package http2

// C11 (KERNEL claim, server side + shared flow.go) — endpoints enforce their advertised receive windows.
//
// Shape I (arbitrary valid inflow state, one step):
//   VerifC11_take, VerifC11_takeInflows    flow.go lemmas over all int32 states / uint32 n
//   VerifC11_processData                   serverConn.processData on an open stream: arbitrary (conn, stream) inflow,
//                                          arbitrary frame Length, <= 3 payload bytes, padding = Length-len(data)
//   VerifC11_processDataNoStream           DATA for closed / half-closed / reset-queued / trailers-seen / unknown
//                                          streams and after GOAWAY: connection window still enforced, body untouched
// Shape B (bounded run from the real initial state, ghost "window the peer was told"):
//   VerifC11_history                       <= 3 events from {DATA, handler body read}; DATA accepted iff it fits the
//                                          ghost windows computed only from the initial sizes and the WINDOW_UPDATE
//                                          frames seen on the wire
//
//   VerifC11_refundScenario                concrete windows; DATA, read 1 byte (refund batched: unsent>0), DATA
//
// Sensitivity (mut.sh, both caught and confirmed natively):
//   flow.go takeInflows `||` -> `&&`            VIOLATION in VerifC11_takeInflows ("succeeds iff n fits both") and in
//                                              VerifC11_history ("accepted DATA fits the windows the peer was told")
//   flow.go inflow.take `n > avail` -> `>=`     VIOLATION in VerifC11_take and VerifC11_processDataNoStream (exact boundary)

import (
	"io"
	"math"
)

func init() {
	vfRegister("VerifC11_take", VerifC11_take)
	vfRegister("VerifC11_takeInflows", VerifC11_takeInflows)
	vfRegister("VerifC11_processData", VerifC11_processData)
	vfRegister("VerifC11_processDataNoStream", VerifC11_processDataNoStream)
	vfRegister("VerifC11_history", VerifC11_history)
	vfRegister("VerifC11_refundScenario", VerifC11_refundScenario)
}

// (I) inflow.take: succeeds iff n <= avail (as mathematical integers), then avail drops by exactly n; otherwise
// nothing changes. unsent is never touched (the window the peer knows is avail, not avail+unsent).
func VerifC11_take() {
	f := h2sInflow("f")
	f0 := f
	n := vfU32("n")
	ok := f.take(n)
	fits := int64(n) <= int64(f0.avail)
	vfAssert(ok == fits, "take succeeds iff n <= avail")
	vfAssert(vfImplies(ok, int64(f.avail) == int64(f0.avail)-int64(n)), "take: avail drops by n")
	vfAssert(vfImplies(!ok, f.avail == f0.avail), "take: refused leaves avail")
	vfAssert(f.unsent == f0.unsent, "take: unsent untouched")
	vfAssert(h2sInflowInv(f), "take: Inv preserved")
	if ok {
		vfReach("accepted")
	} else {
		vfReach("refused")
	}
	if int64(n) == int64(f0.avail) {
		vfReach("exact boundary")
	}
	vfObserveBool("ok", ok)
	vfObserve("avail", uint64(uint32(f.avail)))
	vfReach("end")
}

// (I) takeInflows: all or nothing over two windows.
func VerifC11_takeInflows() {
	f1, f2 := h2sInflow("f1"), h2sInflow("f2")
	a, b := f1, f2
	n := vfU32("n")
	ok := takeInflows(&f1, &f2, n)
	fits := vfAnd(int64(n) <= int64(a.avail), int64(n) <= int64(b.avail))
	vfAssert(ok == fits, "takeInflows succeeds iff n fits both")
	vfAssert(vfImplies(ok, vfAnd(int64(f1.avail) == int64(a.avail)-int64(n), int64(f2.avail) == int64(b.avail)-int64(n))), "takeInflows: both drop by n")
	vfAssert(vfImplies(!ok, vfAnd(f1.avail == a.avail, f2.avail == b.avail)), "takeInflows: refused leaves both")
	vfAssert(vfAnd(f1.unsent == a.unsent, f2.unsent == b.unsent), "takeInflows: unsent untouched")
	vfAssert(vfAnd(h2sInflowInv(f1), h2sInflowInv(f2)), "takeInflows: Inv preserved")
	if ok {
		vfReach("accepted")
	} else if int64(n) <= int64(a.avail) {
		vfReach("refused by second only")
	} else if int64(n) <= int64(b.avail) {
		vfReach("refused by first only")
	} else {
		vfReach("refused by both")
	}
	vfObserveBool("ok", ok)
	vfReach("end")
}

func c11maxData() int {
	if vfTier() > 0 {
		return 4
	}
	return 2
}

// c11pipeBytes reads everything buffered in the pipe's dataBuffer without going through pipe.Read (which would
// block on an empty open pipe and would run the handler-side refund).
func c11pipeBytes(p *pipe) []byte {
	if p.b == nil {
		return nil
	}
	out := make([]byte, p.b.Len())
	if len(out) > 0 {
		n, _ := p.b.Read(out)
		vfAssert(n == len(out), "dataBuffer returns what it holds")
	}
	return out
}

// (I) processData on an OPEN stream with a body.
func VerifC11_processData() {
	sc, _ := h2sNewServerConn(h2sSchedRFC9218)
	st := h2sOpenStream(sc, 1, stateOpen, true)
	sc.inflow = h2sInflow("conn")
	st.inflow = h2sInflow("stream")

	// Declared Content-Length: none, or arbitrary with an arbitrary number of bytes already seen.
	hasDecl := vfChoice("declared", 2) == 1
	if hasDecl {
		st.declBodyBytes = vfI64("decl")
		st.bodyBytes = vfI64("seen")
		vfAssume(st.declBodyBytes >= 0 && st.declBodyBytes < 1<<62)
		vfAssume(st.bodyBytes >= 0 && st.bodyBytes <= st.declBodyBytes)
	}
	// Some bytes may already sit in the pipe (unread by the handler).
	pre := 0
	if !hasDecl {
		pre = vfLen("prebuffered", 0, 1)
	}
	if pre > 0 {
		st.body.Write(vfBytes("pre", pre))
	}

	d := vfLen("datalen", 0, c11maxData())
	data := vfBytes("data", d)
	length := vfU32("Length")
	vfAssume(length >= uint32(d))
	vfAssume(length <= 1<<24-1)
	end := vfBool("END_STREAM")
	f := h2sDataFrame(1, length, end, data)

	c0, s0 := sc.inflow, st.inflow
	len0 := st.body.Len()
	seen0 := st.bodyBytes

	err := sc.processData(f)
	h2sDrain(sc)

	pastDecl := hasDecl && seen0+int64(d) > st.declBodyBytes
	if pastDecl {
		// Stream is being reset for exceeding Content-Length: only the connection window is charged.
		if int64(length) > int64(c0.avail) {
			vfAssert(h2sStreamErr(err, 1, ErrCodeFlowControl), "past decl + over conn window: FLOW_CONTROL_ERROR")
			vfAssert(sc.inflow == c0, "refused frame does not change the conn window")
			vfReach("pastdecl: over conn window")
		} else {
			vfAssert(h2sStreamErr(err, 1, ErrCodeProtocol), "past decl: PROTOCOL_ERROR")
			vfReach("pastdecl: within conn window")
		}
		vfAssert(st.inflow == s0, "past decl: stream window untouched")
		vfAssert(st.body.Len() == len0, "past decl: nothing delivered to the body")
		vfReach("end")
		return
	}

	over := vfOr(int64(length) > int64(c0.avail), int64(length) > int64(s0.avail))
	if over {
		vfAssert(h2sStreamErr(err, 1, ErrCodeFlowControl), "Length beyond a window: FLOW_CONTROL_ERROR")
		vfAssert(st.body.Len() == len0, "excess bytes are not delivered")
		vfAssert(sc.inflow == c0 && st.inflow == s0, "refused frame changes no window")
		vfAssert(st.state == stateOpen, "refused frame does not end the stream")
		vfAssert(st.bodyBytes == seen0, "refused frame not counted")
		if int64(length) == int64(c0.avail)+1 || int64(length) == int64(s0.avail)+1 {
			vfReach("one byte over")
		}
		if int64(length) <= int64(c0.avail)+int64(c0.unsent) && int64(length) <= int64(s0.avail)+int64(s0.unsent) {
			vfReach("over although within avail+unsent (credit not yet advertised does not count)")
		}
		vfReach("over")
	} else {
		vfAssert(err == nil, "DATA within both windows is accepted")
		vfAssert(st.body.Len() == len0+d, "all payload bytes reach the body pipe")
		got := c11pipeBytes(st.body)
		vfAssert(len(got) == len0+d, "pipe holds old + new bytes")
		same := true
		for i := 0; i < d; i++ {
			same = vfAnd(same, got[len0+i] == data[i])
		}
		vfAssert(same, "the delivered bytes are the frame's data")
		vfAssert(st.bodyBytes == seen0+int64(d), "bodyBytes counts the data")
		// window bookkeeping: what was taken is Length; padding (Length-d) is handed back to add() at once
		vfAssert(int64(sc.inflow.avail)+int64(sc.inflow.unsent) == int64(c0.avail)+int64(c0.unsent)-int64(d), "conn window: only the data bytes stay charged")
		vfAssert(int64(st.inflow.avail)+int64(st.inflow.unsent) == int64(s0.avail)+int64(s0.unsent)-int64(d), "stream window: only the data bytes stay charged")
		vfAssert(vfAnd(h2sInflowInv(sc.inflow), h2sInflowInv(st.inflow)), "Inv preserved")
		if end {
			vfAssert(st.state == stateHalfClosedRemote, "END_STREAM half-closes")
			vfAssert(st.body.Err() != nil, "END_STREAM closes the body pipe")
		} else {
			vfAssert(st.state == stateOpen, "stream stays open")
		}
		if int64(length) == int64(c0.avail) || int64(length) == int64(s0.avail) {
			vfReach("exact boundary accepted")
		}
		vfReach("within")
	}
	vfObserveBool("err", err != nil)
	vfObserve("pipe", uint64(st.body.Len()))
	vfReach("end")
}

// (I) DATA that cannot be delivered to a body: unknown (implicitly closed) stream, half-closed (remote) stream,
// RST_STREAM already queued by us, trailers already seen, half-closed (local), or any frame after we sent GOAWAY with
// an error. The connection window is still enforced, and nothing reaches a body.
func VerifC11_processDataNoStream() {
	sc, _ := h2sNewServerConn(h2sSchedRFC9218)
	sc.inflow = h2sInflow("conn")
	variant := vfChoice("variant", 8)
	var st *stream
	id := uint32(1)
	wantClosedErr := true
	switch variant {
	case 0: // stream 1 was never opened or is long gone, but 3 was seen: state() says closed, st == nil
		sc.maxClientStreamID = 3
	case 1:
		st = h2sOpenStream(sc, 1, stateHalfClosedRemote, true)
	case 2:
		st = h2sOpenStream(sc, 1, stateOpen, true)
		st.resetQueued = true
		wantClosedErr = false
	case 3:
		st = h2sOpenStream(sc, 1, stateOpen, true)
		st.gotTrailerHeader = true
	case 4:
		st = h2sOpenStream(sc, 1, stateHalfClosedLocal, true)
	case 5: // after GOAWAY(error) every frame is discarded by processFrame, DATA still charged to the conn window
		st = h2sOpenStream(sc, 1, stateOpen, true)
		sc.inGoAway = true
		sc.goAwayCode = ErrCodeProtocol
		wantClosedErr = false
	case 6: // idle stream: connection error, nothing charged
		id = 5
		sc.maxClientStreamID = 3
	case 7: // stream 0
		id = 0
	}
	var s0 inflow
	if st != nil {
		st.inflow = h2sInflow("stream")
		s0 = st.inflow
		st.body.Write([]byte{0xAA})
	}
	d := vfLen("datalen", 0, 2)
	data := vfBytes("data", d)
	length := vfU32("Length")
	vfAssume(length >= uint32(d))
	vfAssume(length <= 1<<24-1)
	f := h2sDataFrame(id, length, vfBool("END_STREAM"), data)
	c0 := sc.inflow

	var err error
	if variant == 5 {
		err = sc.processFrame(f)
	} else {
		err = sc.processData(f)
	}
	h2sDrain(sc)

	if st != nil {
		vfAssert(st.inflow == s0, "stream window untouched")
		vfAssert(st.body.Len() == 1, "nothing is delivered to the body")
	}
	if variant >= 6 {
		ce, ok := err.(ConnectionError)
		vfAssert(ok && ErrCode(ce) == ErrCodeProtocol, "DATA on idle stream / stream 0: connection PROTOCOL_ERROR")
		vfAssert(sc.inflow == c0, "conn window untouched on a connection error")
		vfReach("connection error")
		vfReach("end")
		return
	}
	if int64(length) > int64(c0.avail) {
		vfAssert(h2sStreamErr(err, id, ErrCodeFlowControl), "over the connection window: FLOW_CONTROL_ERROR")
		vfAssert(sc.inflow == c0, "refused frame does not change the conn window")
		vfReach("over")
	} else {
		if wantClosedErr {
			vfAssert(h2sStreamErr(err, id, ErrCodeStreamClosed), "STREAM_CLOSED")
		} else {
			vfAssert(err == nil, "discarded silently")
		}
		vfAssert(int64(sc.inflow.avail)+int64(sc.inflow.unsent) == int64(c0.avail)+int64(c0.unsent), "all of Length is handed back")
		vfAssert(h2sInflowInv(sc.inflow), "Inv preserved")
		if int64(length) == int64(c0.avail) {
			vfReach("exact boundary accepted")
		}
		vfReach("within")
	}
	vfObserveBool("err", err != nil)
	vfReach("end")
}

// (B) Bounded run from the state serveConn/serve establish (conn window 65535 plus the configured surplus sent as
// WINDOW_UPDATE, stream window = configured MaxUploadBufferPerStream). The ghost windows are what a peer computes
// from the protocol alone: initial sizes, minus the Length of every DATA frame it sent that was not refused, plus
// the WINDOW_UPDATE increments it sees on the wire. A frame must be accepted iff it fits both ghost windows.
// (Ghosts are kept as int32 with an explicit no-overflow assertion at every update: 32-bit sums are much cheaper
// for the bit-vector solver than the equivalent mixed 32/64-bit chains.)
func VerifC11_history() {
	ws := vfI32("MaxUploadBufferPerStream")
	wc := vfI32("MaxUploadBufferPerConnection")
	vfAssume(ws >= 1)                 // config.go: setDefault(..., 1, MaxInt32, ...)
	vfAssume(wc >= initialWindowSize) // config.go: setDefault(..., initialWindowSize, MaxInt32, ...)
	c11run(ws, wc, nil, 2)
}

// (B) The scenario named in the plan, one event longer than VerifC11_history affords with symbolic configuration:
// concrete default-sized windows (64 KiB - 1 stream, 1 MiB... here 65535+surplus conn), DATA, handler reads one byte
// (refund below inflowMinRefresh is batched: unsent > 0), DATA again with arbitrary Length: accepted iff it fits the
// window the peer was told (avail), not avail+unsent.
func VerifC11_refundScenario() {
	surplus := int32(vfChoice("surplus", 2)) * 100 // conn window 65535 or 65635 (surplus batched, never sent)
	c11run(65535, 65535+surplus, []int{0, 1, 0}, 3)
}

func c11run(ws, wc int32, script []int, steps int) {
	sc, c := h2sNewServerConn(h2sSchedRFC9218)
	sc.initialStreamRecvWindowSize = ws
	gConn, gStream := int32(initialWindowSize), ws
	update := func() {
		h2sDrain(sc)
		h2sWire(c, func(f Frame) {
			if wu, ok := f.(*WindowUpdateFrame); ok {
				if wu.StreamID == 0 {
					vfAssert(int64(gConn)+int64(wu.Increment) <= math.MaxInt32, "no WINDOW_UPDATE lifts the conn window above 2^31-1")
					gConn += int32(wu.Increment)
				} else {
					vfAssert(wu.StreamID == 1, "WINDOW_UPDATE for the only stream")
					vfAssert(int64(gStream)+int64(wu.Increment) <= math.MaxInt32, "no WINDOW_UPDATE lifts the stream window above 2^31-1")
					gStream += int32(wu.Increment)
				}
			}
		})
	}
	if diff := wc - initialWindowSize; diff > 0 { // as serve()
		sc.sendWindowUpdate(nil, int(diff))
	}
	update()
	// (a surplus below inflowMinRefresh is batched, not sent: the peer then knows less than the configured size)
	vfAssert(int64(gConn)+int64(sc.inflow.unsent) == int64(wc), "peer learns the configured connection window, minus what is batched")
	vfAssert(gConn == sc.inflow.avail, "initial conn window: enforcement == advertised")
	st := h2sOpenStream(sc, 1, stateOpen, true)
	body := &requestBody{conn: sc, stream: st, pipe: st.body}

	for step := 0; step < steps; step++ {
		ev := 0
		if script != nil {
			ev = script[step]
		} else {
			ev = vfChoice("event", 2)
		}
		if ev == 0 {
			data := vfBytes("data", 1)
			length := vfU32("Length")
			vfAssume(length >= 1)
			vfAssume(length <= 1<<24-1)
			batched := sc.inflow.unsent > 0 || st.inflow.unsent > 0
			err := sc.processData(h2sDataFrame(1, length, false, data))
			fits := vfAnd(length <= uint32(gConn), length <= uint32(gStream)) // ghosts are >= 0 (asserted below)
			if err == nil {
				vfAssert(fits, "accepted DATA fits the windows the peer was told")
				if step > 0 && (length == uint32(gConn) || length == uint32(gStream)) {
					vfReach("exact boundary accepted after earlier events")
				}
				gConn -= int32(length)
				gStream -= int32(length)
				vfReach("accepted")
			} else {
				vfAssert(!fits, "DATA within the advertised windows is never refused")
				vfAssert(h2sStreamErr(err, 1, ErrCodeFlowControl), "refusal is FLOW_CONTROL_ERROR")
				if batched {
					vfReach("refused while some credit is batched (unsent > 0)")
				}
				vfReach("refused")
			}
		} else {
			vfAssume(st.body.Len() > 0)
			n, rerr := body.Read(make([]byte, 1))
			vfAssert(n == 1 && rerr == nil, "handler reads a buffered byte")
			select {
			case m := <-sc.bodyReadCh: // serve(): case m := <-sc.bodyReadCh: sc.noteBodyRead(m.st, m.n)
				sc.noteBodyRead(m.st, m.n)
			default:
				vfAssert(false, "Read of n>0 bytes notifies the serve loop")
			}
			vfReach("read")
		}
		update()
		vfAssert(gConn == sc.inflow.avail, "conn: enforcement window == window the peer knows")
		vfAssert(gStream == st.inflow.avail, "stream: enforcement window == window the peer knows")
		vfAssert(vfAnd(h2sInflowInv(sc.inflow), h2sInflowInv(st.inflow)), "Inv along real histories")
		// The equalities and Inv were just proved for every input on this path: continue with the syntactically
		// simpler of the two equal values and hand Inv to the solver as a lemma (restricts nothing; same natively).
		gConn, gStream = sc.inflow.avail, st.inflow.avail
		vfAssume(vfAnd(h2sInflowInv(sc.inflow), h2sInflowInv(st.inflow)))
	}
	vfObserve("conn.avail", uint64(uint32(sc.inflow.avail)))
	vfObserve("stream.avail", uint64(uint32(st.inflow.avail)))
	vfReach("end")
}

var _ = io.EOF
