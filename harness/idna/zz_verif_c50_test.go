package idna

// C50 (partial claim) — IDNA produces canonical A-labels and is idempotent.
//
//   VerifC50_decenc   Punycode: payload = 0..2 symbolic basic code points [a-z0-9-], '-' if any, 0..2 (thorough 3) digits
//                     [a-z0-9] enumerated exhaustively: whenever decode accepts it, encode("", decode(s)) == s.
//   VerifC50_encdec   Punycode: label = optional symbolic ASCII letter/digit, one rune enumerated over every code point
//                     U+0080..U+07FF (thorough: plus a second rune from a boundary set up to U+10FFFF, either order),
//                     optional symbolic ASCII letter/digit: decode(encode(s)) == s.
//                     (Digits / code points are enumerated, not symbolic: the solver could not decide the multiply/divide
//                     chains of RFC 3492's variable-length integers and bias adaptation within its time limits.)
//   VerifC50_alabel   A-label rule, every profile (Punycode, Lookup, Display, Registration, New()): the label "xn--"+p with
//                     p = 1..3 (thorough 5) symbolic bytes from [a-z0-9-] whose payload is invalid or decodes to only
//                     ASCII must be rejected by ToASCII and ToUnicode.
//   VerifC50_alabelctx The same rule for the label inside a name: after "" / an ASCII label / a valid A-label / a U-label / an
//                     empty label (each alone or followed by one more empty label), before "" / the root dot / an ASCII
//                     label / an empty label + A-label; p = 1..2 (thorough 3) symbolic bytes.
//   VerifC50_idem     Idempotence on ASCII labels: x = 1..3 (thorough 4) symbolic ASCII bytes (letters of both cases,
//                     digits, '-', '.', '_'), every profile: if ToASCII accepts x then ToASCII(ToASCII(x)) == ToASCII(x)
//                     and ToASCII(ToUnicode(x)) == ToASCII(x); the same for "xn--"+p restricted as in VerifC50_alabel.
//
//   VerifC50_surrogate Punycode around the surrogate range (needs 4 digits, beyond VerifC50_decenc's enumeration): payloads
//                     d+"b9b" with d enumerated over [a-z0-9] denote U+D7F8..U+D81B (reference decoder c50refDecode): surrogates are rejected, scalars round-trip, and for
//                     the non-validating profiles (Punycode, New()) ToASCII idempotence and ToASCII(ToUnicode(x)).
//
//   VerifC50_bigdelta One generalised variable-length integer with SYMBOLIC digits, 1..10 digits (any delta below 2^39, incl.
//                     everything that overflows 32 bits), after 0..1 symbolic basic code points: decode accepts exactly
//                     when the delta denotes a Unicode scalar value (reference in 64-bit arithmetic) and returns it at
//                     the right position; the rejected payloads are rejected by ToASCII/ToUnicode of every profile.
//   VerifC50_names    Multi-label names (1..3 labels) enumerated over label shapes built from 8 atoms (ASCII letter, digit,
//                     hyphen, upper case, non-ASCII L, R, AL, AN), each non-ASCII label as U-label or A-label: the
//                     statement's idempotence / ToASCII(ToUnicode(x)) clauses, Punycode, Lookup, Display, Registration.
//
//   VerifC50_refdecode Punycode validity against an INDEPENDENT reference (RFC 3492 6.2 written out in the harness, 64-bit):
//                     payload = 1..3 (thorough 4) symbolic bytes [a-z0-9-] in ANY arrangement (delimiter anywhere, leading,
//                     doubled, alone, absent): decode accepts exactly the payloads the reference accepts and returns the
//                     reference's code points; payloads the reference rejects are rejected by every profile. (The other
//                     harnesses classify "invalid payload" with decode itself, so a decode that accepts too much went
//                     unnoticed there.)
//
// Known finding C50-ascii-alabel: see known_findings.txt and repro/C50. C50-surrogate-payload (decode returned U+FFFD
// for a payload that encodes a surrogate) was found by VerifC50_surrogate and is fixed in /repo (3484f90).
//
// Sensitivity (mut.sh):
//   punycode.go decode `if digit < t {` -> `<=`                                     caught (encdec)
//   punycode.go encode `(q-t)%(base-t)` -> `(q-t)%(base-t+1)`                       caught (encdec)
//   idna.go process `if err2 != nil { if err == nil {` -> `if err != nil {`          caught (alabel, not masked by the
//            known finding: kcond does not hold for invalid payloads)
//   idna.go process: dropping the `unicode16 &&` guard (candidate repair)            check passes, no KNOWN-FINDING
//   punycode.go madd `int64(b) * int64(c)` -> `int64(b * c)` (seed C50-A)            caught (bigdelta, quick)
//   idna.go process `isBidi = isBidi || ...` -> `isBidi = ...` (seed C50-B)          caught (names, quick)
//   punycode.go decode: `pos == 1` rejection only when the '-' is also the last byte (seed C50-E)   caught (refdecode and
//            decenc leading-delimiter, quick)
//   idna.go labelIter.next slice mode stops at the first empty label (seed C50-D)     caught (names with empty labels and
//            alabelctx, quick)

func init() {
	vfRegister("VerifC50_decenc", VerifC50_decenc)
	vfRegister("VerifC50_encdec", VerifC50_encdec)
	vfRegister("VerifC50_alabel", VerifC50_alabel)
	vfRegister("VerifC50_alabelctx", VerifC50_alabelctx)
	vfRegister("VerifC50_idem", VerifC50_idem)
	vfRegister("VerifC50_surrogate", VerifC50_surrogate)
	vfRegister("VerifC50_bigdelta", VerifC50_bigdelta)
	vfRegister("VerifC50_names", VerifC50_names)
	vfRegister("VerifC50_refdecode", VerifC50_refdecode)
}

func c50ldh(label string, n int) string {
	bs := make([]byte, n)
	for i := range bs {
		c := vfU8(label)
		vfAssume(vfOr(vfOr(vfAnd(c >= 'a', c <= 'z'), vfAnd(c >= '0', c <= '9')), c == '-'))
		bs[i] = c
	}
	return string(bs)
}

// c50digits: n Punycode digits [a-z0-9], each concretised (one path per value): the generalised variable-length integer
// arithmetic of RFC 3492 (symbolic multiply/divide chains through adapt) is beyond the solver, so the delta digits are
// enumerated exhaustively and only the basic code points stay symbolic.
func c50digits(n int) string {
	bs := make([]byte, n)
	for i := range bs {
		c := vfU8("digit")
		vfAssume(vfOr(vfAnd(c >= 'a', c <= 'z'), vfAnd(c >= '0', c <= '9')))
		bs[i] = byte(vfConcretize(uint64(c)))
	}
	return string(bs)
}

func c50basic(n int) string {
	bs := make([]byte, n)
	for i := range bs {
		c := vfU8("basic")
		vfAssume(vfOr(vfOr(vfAnd(c >= 'a', c <= 'z'), vfAnd(c >= '0', c <= '9')), c == '-'))
		bs[i] = c
	}
	return string(bs)
}

func VerifC50_decenc() {
	// payload = [basic code points, symbolic] ['-'] [digits, enumerated]
	nb := vfLen("basic", 0, 2)
	nd := vfLen("digits", 0, 2+vfTier())
	s := c50basic(nb)
	if nb > 0 {
		s += "-"
	} else if nd > 0 && vfChoice("leading-delimiter", 2) == 1 {
		// a delimiter with NO basic code point before it: the encoder never emits it (RFC 3492 6.3 writes the delimiter
		// only if b > 0), so accepting it could not round-trip
		s += "-"
		vfReach("leading-delimiter")
	}
	s += c50digits(nd)
	if len(s) == 0 {
		vfReach("end")
		return
	}
	u, err := decode(s)
	if err != nil {
		vfReach("rejected")
		vfReach("end")
		return
	}
	e, err2 := encode("", u)
	vfAssert(err2 == nil, "an accepted payload re-encodes without error")
	vfAssert(e == s, "encode(decode(s)) == s")
	vfObserveStr("decoded", u)
	vfReach("accepted")
	vfReach("end")
}

func VerifC50_encdec() {
	// label = [0..1 symbolic ASCII letter] + one non-ASCII rune, enumerated over U+0080..U+07FF (thorough: a second
	// rune from a boundary set, in either order) + [0..1 symbolic ASCII letter]
	var rs []rune
	ascii := func() rune {
		r := vfU8("ascii")
		vfAssume(vfOr(vfAnd(r >= 'a', r <= 'z'), vfAnd(r >= '0', r <= '9')))
		return rune(r)
	}
	if vfChoice("pre", 2) == 1 {
		rs = append(rs, ascii())
	}
	rs = append(rs, rune(0x80+64*vfChoice("runehi", 30)+vfChoice("runelo", 64))) // every code point U+0080..U+07FF
	if vfTier() > 0 {
		set := []rune{0, 0x80, 0xff, 0x100, 0x7ff, 0x800, 0xd7ff, 0xe000, 0xfffd, 0xffff, 0x10000, 0x10ffff}
		if r2 := set[vfChoice("rune2", len(set))]; r2 != 0 {
			if vfChoice("order", 2) == 0 {
				rs = append(rs, r2)
			} else {
				rs = append([]rune{r2}, rs...)
			}
		}
	}
	if vfChoice("post", 2) == 1 {
		rs = append(rs, ascii())
	}
	s := string(rs)
	e, err := encode("", s)
	vfAssert(err == nil, "short labels encode without overflow")
	d, err2 := decode(e)
	vfAssert(err2 == nil, "decode accepts what encode produced")
	vfAssert(d == s, "decode(encode(s)) == s")
	vfObserveStr("encoded", e)
	vfReach("roundtrip")
	vfReach("end")
}

func c50profile(i int) *Profile {
	switch i {
	case 0:
		return Punycode
	case 1:
		return Lookup
	case 2:
		return Display
	case 3:
		return Registration
	}
	return New()
}

// c50asciiOnly: the payload is invalid Punycode (bad) or decodes to only ASCII (asciiOnly). The second happens exactly when
// the payload ends in '-' (all basic code points, no deltas).
func c50classify(p string) (bad, asciiOnly bool, decoded string) {
	u, err := decode(p)
	if err != nil {
		return true, false, ""
	}
	return false, isASCII(u), u
}

func VerifC50_alabel() {
	p := c50ldh("payload", vfLen("len", 1, 3+2*vfTier()))
	bad, asciiOnly, _ := c50classify(p)
	vfAssume(bad || asciiOnly) // a payload that decodes to non-ASCII is a candidate A-label, not the subject of this rule
	prof := c50profile(vfChoice("profile", 5))
	x := "xn--" + p
	_, errA := prof.ToASCII(x)
	_, errU := prof.ToUnicode(x)
	// kcond: exactly the class of the known finding: valid Punycode that decodes to a non-empty all-ASCII string
	known := !bad && asciiOnly
	vfAssertKF(errA != nil, "ToASCII rejects an A-label with invalid or ASCII-only payload", "C50-ascii-alabel", known)
	vfAssertKF(errU != nil, "ToUnicode rejects an A-label with invalid or ASCII-only payload", "C50-ascii-alabel", known)
	if bad {
		vfReach("invalid-payload")
	} else {
		vfReach("ascii-only-payload")
	}
	vfObserveBool("errA", errA != nil)
	vfReach("end")
}

// VerifC50_alabelctx (B): the A-label rule wherever the label stands in a name: name = pre + "xn--"+p + post with p = 1..2
// (thorough 3) symbolic bytes restricted as in VerifC50_alabel, pre one of "" / an ASCII label / a valid A-label / a
// U-label / an empty label, alone or followed by a further empty label, and post one of "" / the root dot / an ASCII
// label / an empty label and a valid A-label. (Profile.process switches its label iterator to another representation
// after the first label it rewrites, so labels behind a decoded A-label or an encoded U-label, and behind empty labels,
// take a different path from a lone label.) Every profile; ToASCII and ToUnicode must both report an error.
func VerifC50_alabelctx() {
	p := c50ldh("payload", vfLen("len", 1, 2+vfTier()))
	bad, asciiOnly, _ := c50classify(p)
	vfAssume(bad || asciiOnly)
	pre := []string{"", "a.", "xn--tda.", "\u00fc.", ".", "a..", "xn--tda..", "\u00fc.."}[vfChoice("pre", 8)]
	post := []string{"", ".", ".a", "..xn--tda"}[vfChoice("post", 4)]
	prof := c50profile(vfChoice("profile", 5))
	x := pre + "xn--" + p + post
	_, errA := prof.ToASCII(x)
	_, errU := prof.ToUnicode(x)
	known := !bad && asciiOnly
	vfAssertKF(errA != nil, "ToASCII rejects a name with an A-label of invalid or ASCII-only payload at any position", "C50-ascii-alabel", known)
	vfAssertKF(errU != nil, "ToUnicode rejects a name with an A-label of invalid or ASCII-only payload at any position", "C50-ascii-alabel", known)
	if bad {
		vfReach("ctx-invalid-payload")
	} else {
		vfReach("ctx-ascii-only-payload")
	}
	vfObserveBool("errA", errA != nil)
	vfObserveStr("x", x)
	vfReach("end")
}

func VerifC50_idem() {
	prof := c50profile(vfChoice("profile", 5))
	var x string
	if vfChoice("kind", 2) == 0 {
		n := vfLen("len", 1, 3+vfTier())
		bs := make([]byte, n)
		for i := range bs {
			c := vfU8("x")
			vfAssume(vfOr(vfOr(vfAnd(c >= 'a', c <= 'z'), vfAnd(c >= 'A', c <= 'Z')),
				vfOr(vfAnd(c >= '0', c <= '9'), vfOr(c == '-', vfOr(c == '.', c == '_')))))
			bs[i] = c
		}
		x = string(bs)
	} else {
		p := c50ldh("payload", vfLen("plen", 1, 3+vfTier()))
		bad, asciiOnly, _ := c50classify(p)
		vfAssume(bad || asciiOnly)
		x = "xn--" + p
	}
	a1, err := prof.ToASCII(x)
	if err != nil {
		vfReach("rejected")
		vfReach("end")
		return
	}
	a2, err2 := prof.ToASCII(a1)
	vfAssert(err2 == nil && a2 == a1, "ToASCII(ToASCII(x)) == ToASCII(x)")
	u, _ := prof.ToUnicode(x)
	a3, err3 := prof.ToASCII(u)
	vfAssert(err3 == nil && a3 == a1, "ToASCII(ToUnicode(x)) == ToASCII(x)")
	vfObserveStr("ascii", a1)
	vfReach("accepted")
	vfReach("end")
}

// c50refDecode: reference decoder for payloads made only of digits (no basic code points, RFC 3492 6.2), returning the
// code points as integers (no conversion to string, so a surrogate stays visible) and ok=false for a malformed integer.
func c50refDecode(p string) (cps []int, ok bool) {
	n, i, bias := 128, 0, 72
	pos := 0
	for pos < len(p) {
		oldI, w := i, 1
		for k := 36; ; k += 36 {
			if pos == len(p) {
				return nil, false
			}
			c := p[pos]
			pos++
			d := 0
			switch {
			case 'a' <= c && c <= 'z':
				d = int(c - 'a')
			case '0' <= c && c <= '9':
				d = int(c-'0') + 26
			default:
				return nil, false
			}
			i += d * w
			t := k - bias
			if k <= bias {
				t = 1
			} else if k >= bias+26 {
				t = 26
			}
			if d < t {
				break
			}
			w *= 36 - t
		}
		x := len(cps) + 1
		// adapt
		delta := i - oldI
		if oldI == 0 {
			delta /= 700
		} else {
			delta /= 2
		}
		delta += delta / x
		k := 0
		for delta > ((36-1)*26)/2 {
			delta /= 36 - 1
			k += 36
		}
		bias = k + (36*delta)/(delta+38)
		n += i / x
		i %= x
		cps = append(cps, 0)
		copy(cps[i+1:], cps[i:])
		cps[i] = n
		i++
	}
	return cps, true
}

func VerifC50_surrogate() {
	p := c50digits(1) + "b9b"
	cps, refOK := c50refDecode(p)
	vfAssert(refOK, "these payloads are well-formed generalised variable-length integers")
	surrogate := false
	for _, c := range cps {
		if 0xd800 <= c && c <= 0xdfff {
			surrogate = true
		}
	}
	u, err := decode(p)
	prof := c50profile(4 * vfChoice("profile", 2)) // Punycode or New(): no label validation
	x := "xn--" + p
	a1, errA := prof.ToASCII(x)
	if surrogate {
		// a surrogate is not a Unicode scalar value: the payload is invalid Punycode (RFC 3492 6.2 "fail if n is not a
		// code point the decoder can represent"; before fix 3484f90 decode returned U+FFFD for it: fixed finding
		// C50-surrogate-payload)
		vfAssert(err != nil, "decode rejects a payload that encodes a surrogate code point")
		vfAssert(errA != nil, "ToASCII rejects an xn-- label whose payload encodes a surrogate code point")
		vfReach("surrogate")
		vfReach("end")
		return
	}
	vfAssert(err == nil, "decode accepts a payload that encodes scalar values")
	k := 0
	same := true
	for _, r := range u {
		if k >= len(cps) || int(r) != cps[k] {
			same = false
		}
		k++
	}
	vfAssert(same && k == len(cps), "decode returns the code points of the reference decoder")
	e, err2 := encode("", u)
	vfReach("scalar")
	if errA == nil {
		a2, errA2 := prof.ToASCII(a1)
		vfAssert(errA2 == nil && a2 == a1, "ToASCII(ToASCII(x)) == ToASCII(x)")
		uu, _ := prof.ToUnicode(x)
		a3, errA3 := prof.ToASCII(uu)
		vfAssert(errA3 == nil && a3 == a1, "ToASCII(ToUnicode(x)) == ToASCII(x)")
		vfReach("accepted")
	}
	vfObserveStr("encoded", e)
	vfAssert(err2 == nil && e == p, "encode(decode(s)) == s")
	vfReach("end")
}

// c50thresholds: RFC 3492 6.2 thresholds t(j) = clamp(36*(j+1) - bias, 1, 26) and weights w(0) = 1,
// w(j+1) = w(j) * (36 - t(j)) of the digits of one generalised variable-length integer, in 64-bit arithmetic.
func c50thresholds(bias, n int) (t, w []int) {
	t, w = make([]int, n), make([]int, n)
	wj := 1
	for j := 0; j < n; j++ {
		tj := 36*(j+1) - bias
		if tj < 1 {
			tj = 1
		} else if tj > 26 {
			tj = 26
		}
		t[j], w[j] = tj, wj
		wj *= 36 - tj
	}
	return
}

// VerifC50_bigdelta (B): one generalised variable-length integer of ANY magnitude with SYMBOLIC digits (the harnesses
// above enumerate at most 3 digits, so deltas stay below 36^3): payload = [0..1 symbolic basic code point + '-'] + one
// integer of 1..10 digits (lengths forked; every digit but the last >= its threshold, the last below it; digit values
// symbolic). With the initial bias the thresholds and weights are constants, so the value is a linear form of the
// digits. Reference (width independent, RFC 3492 6.2 with unbounded integers, 64-bit here: the value is < 2^39):
// V = sum d(j)*w(j), n = 128 + V div (b+1), position V mod (b+1); the payload is valid iff n is a Unicode scalar value.
// This covers the overflow rule of RFC 3492 6.4 end to end: every V >= 2^31 (and every V wrapping to a small value
// modulo 2^32) is invalid because n would exceed U+10FFFF.
func VerifC50_bigdelta() {
	nb := vfLen("basic", 0, 1)
	nd := vfLen("digits", 1, 10)
	basic := c50basic(nb)
	pre := basic
	if nb > 0 {
		vfAssume(basic[0] != '-') // keep the last '-' the delimiter's
		pre += "-"
	}
	t, w := c50thresholds(72, nd)
	ds := make([]byte, nd)
	V := 0
	for j := 0; j < nd; j++ {
		d := vfU8("digitvalue")
		if j < nd-1 {
			vfAssume(vfAnd(int(d) >= t[j], d <= 35))
		} else {
			vfAssume(int(d) < t[j])
		}
		ds[j] = vfIteU8(d < 26, 'a'+d, '0'+(d-26))
		V += int(d) * w[j]
	}
	p := pre + string(ds)
	x := nb + 1
	n, pos := 128+V/x, V%x
	valid := vfAnd(n <= 0x10ffff, vfOr(n < 0xd800, n > 0xdfff))

	u, err := decode(p)
	vfAssert((err == nil) == valid, "decode accepts the payload exactly when its delta denotes a Unicode scalar value")
	if err != nil {
		// invalid payload: the label must be refused by the profiles as well (decode fails before any table lookup)
		prof := c50profile(vfChoice("profile", 5))
		_, errA := prof.ToASCII("xn--" + p)
		_, errU := prof.ToUnicode("xn--" + p)
		vfAssert(errA != nil && errU != nil, "ToASCII and ToUnicode reject an A-label whose delta is out of range")
		if vfConcretizeBool(V > 0x7fffffff) {
			vfReach("beyond-int32")
		}
		if vfConcretizeBool(V > 0xffffffff) {
			vfReach("beyond-uint32")
		}
		vfReach("rejected-delta")
		vfReach("end")
		return
	}
	ip := int(vfConcretize(uint64(pos)))
	exp := make([]rune, x)
	exp[ip] = rune(n)
	if nb > 0 {
		exp[1-ip] = rune(basic[0])
	}
	vfAssert(u == string(exp), "decoded label = the basic code point kept, U+(128 + V div (b+1)) inserted at position V mod (b+1)")
	if nd <= 2+vfTier() {
		// (the re-encoding of a symbolic delta is a chain of symbolic divisions: slow for 3 digits, not decided in time
		// for 4 or 5; VerifC50_decenc / VerifC50_surrogate cover the round trip on enumerated digits)
		e, err2 := encode("", u)
		vfAssert(err2 == nil && e == p, "encode(decode(s)) == s")
	}
	vfObserveStr("decoded", u)
	vfReach("accepted-delta")
	vfReach("end")
}

// c50atoms: one code point per class that matters to label validation and the Bidi Rule (RFC 5893): ASCII letter (L),
// ASCII digit (EN), hyphen (ES), upper-case ASCII letter (mapped by the mapping profiles, disallowed by the others),
// non-ASCII L, R (Hebrew), AL (Arabic), AN (Arabic-Indic digit), and a combining mark (U+0301: after 'a' or U+00FC the
// label is not in NFC, so the normalisation step of the mapping profiles is exercised at every position of a name;
// added after seeded change C50-F).
var c50atoms = []rune{'a', '1', '-', 'A', 0xfc, 0x5d0, 0x627, 0x660, 0x301}

// VerifC50_names (B): multi-label names whose labels are enumerated over every sequence of atoms from c50atoms (quick:
// one label of 1..3 atoms, two labels of 1..2 atoms, three labels of 1 atom; thorough: in names of two or three labels
// one label, at any position, may have one more atom), each non-ASCII label spelled either as a U-label or as the A-label produced by encode
// (labels may also be EMPTY - 0 atoms -: leading, interior "a..b", trailing root "a."; the non-verifying profiles accept them)
// (so the name-wide state of Profile.process - the bidi flag accumulated over U-labels and decoded A-labels, the error
// of an earlier label - is exercised in every order and spelling); profiles Punycode, Lookup,
// Display, Registration. Concrete inputs: the x/text tries are walked concretely. Oracle = the statement: if ToASCII
// accepts x then ToASCII(ToASCII(x)) == ToASCII(x) and ToASCII(ToUnicode(x)) == ToASCII(x).
func VerifC50_names() {
	prof := c50profile(vfChoice("profile", 4))
	nl := vfLen("labels", 1, 3)
	long := -1
	if vfTier() > 0 && nl > 1 {
		long = vfChoice("long", nl)
	}
	x := ""
	anyA, anyU := false, false
	for i := 0; i < nl; i++ {
		maxAtoms := 4 - nl // 3, 2, 1 atoms per label for names of 1, 2, 3 labels; thorough: one more for one label
		if i == long {
			maxAtoms++
		}
		na := vfLen("atoms", 0, maxAtoms) // 0 atoms: an empty label (leading, interior "a..b", or the trailing root "a.")
		if na == 0 && nl > 1 {
			if i == nl-1 {
				vfReach("names-trailing-root")
			} else {
				vfReach("names-empty-label")
			}
		}
		rs := make([]rune, na)
		nonASCII := false
		for j := range rs {
			rs[j] = c50atoms[vfChoice("atom", len(c50atoms))]
			if rs[j] >= 0x80 {
				nonASCII = true
			}
		}
		label := string(rs)
		if nonASCII && vfChoice("spelling", 2) == 1 {
			a, err := encode(acePrefix, label)
			vfAssert(err == nil, "harness: short labels encode")
			label = a
			anyA = true
		} else if nonASCII {
			anyU = true
		}
		if i > 0 {
			x += "."
		}
		x += label
	}
	a1, err := prof.ToASCII(x)
	vfObserveStr("x", x)
	vfObserveBool("rejected", err != nil)
	if err != nil {
		vfReach("names-rejected")
		vfReach("end")
		return
	}
	vfAssert(isASCII(a1), "the result of ToASCII is ASCII (every label an LDH label or an A-label)")
	a2, err2 := prof.ToASCII(a1)
	vfAssert(err2 == nil && a2 == a1, "ToASCII(ToASCII(x)) == ToASCII(x)")
	u, _ := prof.ToUnicode(x)
	a3, err3 := prof.ToASCII(u)
	vfAssert(err3 == nil && a3 == a1, "ToASCII(ToUnicode(x)) == ToASCII(x)")
	if anyA && anyU {
		vfReach("mixed-spellings-accepted")
	}
	if anyA {
		vfReach("alabel-name-accepted")
	}
	vfObserveStr("ascii", a1)
	vfReach("end")
}

// c50refPuny: reference Punycode decoder, RFC 3492 6.2 transcribed (64-bit arithmetic; independent of decode):
// b = number of code points before the LAST delimiter (0 if there is none); the first b code points are copied; the
// main loop starts after the delimiter if b > 0 and at the BEGINNING of the input otherwise (so a delimiter at index 0
// with nothing before it is read as a digit and fails); every integer must be complete and made of digits [a-z0-9];
// n must stay a Unicode scalar value. Returns the code points as integers.
func c50refPuny(p string) (cps []int, ok bool) {
	b := 0
	for j := 0; j < len(p); j++ {
		if p[j] == '-' {
			b = j
		}
	}
	for j := 0; j < b; j++ {
		cps = append(cps, int(p[j]))
	}
	pos := 0
	if b > 0 {
		pos = b + 1
	}
	n, i, bias := 128, 0, 72
	for pos < len(p) {
		oldI, w := i, 1
		for k := 36; ; k += 36 {
			if pos == len(p) {
				return nil, false
			}
			c := p[pos]
			pos++
			d := 0
			switch {
			case 'a' <= c && c <= 'z':
				d = int(c - 'a')
			case '0' <= c && c <= '9':
				d = int(c-'0') + 26
			default:
				return nil, false
			}
			i += d * w
			t := k - bias
			if k <= bias {
				t = 1
			} else if k >= bias+26 {
				t = 26
			}
			if d < t {
				break
			}
			w *= 36 - t
		}
		x := len(cps) + 1
		delta := i - oldI
		if oldI == 0 {
			delta /= 700
		} else {
			delta /= 2
		}
		delta += delta / x
		k := 0
		for delta > ((36-1)*26)/2 {
			delta /= 36 - 1
			k += 36
		}
		bias = k + (36*delta)/(delta+38)
		n += i / x
		i %= x
		if n > 0x10ffff || (0xd800 <= n && n <= 0xdfff) {
			return nil, false
		}
		ip := int(vfConcretize(uint64(i)))
		cps = append(cps, 0)
		copy(cps[ip+1:], cps[ip:])
		cps[ip] = n
		i = ip + 1
	}
	return cps, true
}

// VerifC50_refdecode (B): which payloads are valid Punycode, decided by the reference above and not by decode itself.
// Payload = 1..3 (thorough 4) symbolic bytes from [a-z0-9-], no restriction on where the hyphens stand.
func VerifC50_refdecode() {
	p := c50ldh("payload", vfLen("len", 1, 3+vfTier()))
	cps, refOK := c50refPuny(p)
	u, err := decode(p)
	vfAssert((err == nil) == refOK, "decode accepts exactly the payloads that RFC 3492 6.2 accepts")
	vfObserveBool("accepted", err == nil)
	if !refOK {
		prof := c50profile(vfChoice("profile", 5))
		_, errA := prof.ToASCII("xn--" + p)
		_, errU := prof.ToUnicode("xn--" + p)
		vfAssert(errA != nil && errU != nil, "ToASCII and ToUnicode reject an A-label whose payload is invalid per RFC 3492")
		if p[0] == '-' {
			vfReach("ref-rejected-leading-delimiter")
		}
		vfReach("ref-rejected")
		vfReach("end")
		return
	}
	exp := make([]rune, len(cps))
	for k := range cps {
		exp[k] = rune(cps[k])
	}
	vfAssert(u == string(exp), "decode returns the code points of the reference decoder")
	if p[len(p)-1] == '-' {
		vfReach("ref-accepted-basic-only")
	} else if p[0] == '-' {
		vfReach("ref-accepted-hyphen-basic") // "--a": the basic part is "-"
	} else {
		vfReach("ref-accepted-extended")
	}
	vfObserveStr("decoded", u)
	vfReach("end")
}
