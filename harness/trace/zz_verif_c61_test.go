package trace

import (
	"time"

	"golang.org/x/net/internal/timeseries"
)

// C61 (second package) — trace/histogram.go is the Observable the package's time series are made of. The argument of
// the timeseries harnesses (harness/internal/timeseries/zz_verif_c61_test.go) rests on "linearity": the series only
// combines observations through Add / CopyFrom / Clear and every stored value is the sum of the contributions. That
// is true of the series code for ANY Observable, but Total() == sum of the observations only follows if the
// Observable itself is a faithful additive value with storage of its own. These harnesses check that for *histogram:
//
//   VerifC61_histogram    Observable laws on histograms a, b built from 0..2 (thorough 0..3) measurements each, values
//                         from a boundary set (same bucket, different buckets, bucket 0, the last bucket):
//                         CopyFrom into a fresh histogram gives an equal value that shares NO storage with its
//                         source (mutating either side leaves the other unchanged); Add adds bucket counts and sums
//                         and leaves its argument unchanged, also when both sides are the same kind; Clear gives
//                         the zero value. Values are compared through the abstraction c61abs (bucket counts as
//                         total() counts them, sum, sum of squares).
//   VerifC61_histseries   the real timeseries.TimeSeries over histograms (production resolutions, harness clock): the
//                         SAME observation object added 1..3 times at one instant or at instants one resolution
//                         apart, with a Total() in between or not: Total() == k * observation, and the caller's
//                         observation object is unchanged.
//
// Measurement values are enumerated (vfChoice), not symbolic: sumOfSquares is floating point, which the engine
// executes concretely only. Added after seeded change C61-B (CopyFrom sharing the bucket slice).

func init() {
	vfRegister("VerifC61_histogram", VerifC61_histogram)
	vfRegister("VerifC61_histseries", VerifC61_histseries)
}

// (a function, not a package-level variable: the engine does not run this package's initialiser, see skip_init)
func c61hvals() []int64 { return []int64{0, 1, 2, 3, 5, 1 << 20, 1 << 40, 1<<62 + 5} }

type c61habs struct {
	cnt [bucketCount]int64
	sum int64
	sq  float64
}

// c61abs: the value a histogram denotes, read the way total()/percentileBoundary read it.
func c61abs(h *histogram) c61habs {
	var a c61habs
	if h.valueCount > 0 {
		a.cnt[h.value] += h.valueCount
	}
	for i, v := range h.buckets {
		a.cnt[i] += v
	}
	a.sum = h.sum
	a.sq = h.sumOfSquares
	return a
}

func c61absAdd(x, y c61habs) c61habs {
	for i := range x.cnt {
		x.cnt[i] += y.cnt[i]
	}
	x.sum += y.sum
	x.sq += y.sq
	return x
}

func c61hmake(label string, max int) *histogram {
	h := new(histogram)
	n := vfLen(label+".n", 0, max)
	for i := 0; i < n; i++ {
		vals := c61hvals()
		h.addMeasurement(vals[vfChoice(label+".v", len(vals))])
	}
	return h
}

func c61hmax() int {
	if vfTier() > 0 {
		return 3
	}
	return 2
}

func VerifC61_histogram() {
	a := c61hmake("a", c61hmax())
	b := c61hmake("b", c61hmax())
	absA, absB := c61abs(a), c61abs(b)
	var zero c61habs

	h := new(histogram) // what the series' provider returns
	vfAssert(c61abs(h) == zero, "a new histogram is the zero value")
	h.CopyFrom(a)
	vfAssert(c61abs(h) == absA, "CopyFrom gives an equal value")
	h.Add(b)
	vfAssert(c61abs(h) == c61absAdd(absA, absB), "Add adds bucket counts, sum and sum of squares")
	vfAssert(c61abs(a) == absA, "the source of CopyFrom is not changed by a later Add to the copy (no shared storage)")
	vfAssert(c61abs(b) == absB, "the argument of Add is unchanged")
	h.Add(a)
	vfAssert(c61abs(h) == c61absAdd(c61absAdd(absA, absB), absA), "a second Add accumulates")
	vfAssert(c61abs(a) == absA && c61abs(b) == absB, "arguments unchanged after the second Add")

	// the other direction: changing the source afterwards does not change the copy
	g := new(histogram)
	g.CopyFrom(a)
	a.Add(b)
	vfAssert(c61abs(g) == absA, "the copy is not changed by a later Add to its source (no shared storage)")
	vfAssert(c61abs(a) == c61absAdd(absA, absB), "Add on the source")
	g.Multiply(0)
	vfAssert(c61abs(a) == c61absAdd(absA, absB), "scaling the copy (as Range does with its scratch value) leaves the source unchanged")

	h.Clear()
	vfAssert(c61abs(h) == zero, "Clear gives the zero value")
	vfAssert(c61abs(b) == absB, "Clear of the accumulator leaves the added observation unchanged")
	if len(absA.cnt) > 0 && a.valueCount == -1 {
		vfReach("bucketed")
	} else {
		vfReach("single")
	}
	vfReach("end")
}

type c61hclock struct{ now time.Time }

func (c *c61hclock) Time() time.Time { return c.now }

func VerifC61_histseries() {
	t0 := time.Unix(1_700_000_000, 0)
	clk := &c61hclock{now: t0}
	ts := timeseries.NewTimeSeriesWithClock(func() timeseries.Observable { return new(histogram) }, clk)
	obs := c61hmake("obs", c61hmax())
	abs := c61abs(obs)
	k := vfLen("k", 1, 3)
	apart := vfChoice("apart", 2) == 1   // successive adds one second apart (new pending bucket) or at one instant
	between := vfChoice("total-between", 2) == 1
	var want c61habs
	for i := 0; i < k; i++ {
		t := t0
		if apart {
			t = t0.Add(time.Duration(i) * time.Second)
			clk.now = t
		}
		ts.AddWithTime(obs, t)
		want = c61absAdd(want, abs)
		vfAssert(c61abs(obs) == abs, "the caller's observation is unchanged by AddWithTime")
		if between {
			got := ts.Total().(*histogram)
			vfAssert(c61abs(got) == want, "Total() == sum of all observations (after each add)")
			vfAssert(c61abs(obs) == abs, "the caller's observation is unchanged by Total")
		}
	}
	got := ts.Total().(*histogram)
	vfAssert(c61abs(got) == want, "Total() == sum of all observations")
	vfAssert(c61abs(obs) == abs, "the caller's observation is unchanged")
	vfReach("end")
}
