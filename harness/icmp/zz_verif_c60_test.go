package icmp

import (
	"net"

	"golang.org/x/net/internal/iana"
	"golang.org/x/net/ipv4"
	"golang.org/x/net/ipv6"
)

// C60 (partial) — ICMP and IPv4 header codecs round-trip with valid checksums.
//
// Shape: pure round trips (oracle = the inverse function of the code itself) + an RFC 1071 reference checksum
// written in the harness (see c60valid / c60sum / c60sumBE for the forms used and why).
//   echo       Echo / EchoReply v4, v6 without and with pseudo header: every code, ID, Seq, data 0..4 bytes
//   extecho    ExtendedEchoRequest (no extension / InterfaceIdent by name, index, address) and ExtendedEchoReply
//   multipart  DstUnreach, TimeExceeded, ParamProb (v4), v4 and v6, data 0..4 bytes, extension none / MPLS label
//              stack with one label / InterfaceInfo(index, name <= 2, MTU, IPv4 address): equal message back, where
//              RFC 4884 pads the original datagram to 128 octets when extensions are present
//   simple     PacketTooBig, ParamProb v6, RawBody under an unregistered type
//   parse      ParseMessage on 4..12 arbitrary bytes of either protocol, and on a 140+12-byte RFC 4884 template
//              with 12 arbitrary bytes of extension structure: never panics
//   extNames   the variable-length name fields over their WHOLE legal range: InterfaceInfo name 0..63 octets (RFC 5837
//              name sub-object 4..64 octets incl. its length octet; layout asserted on the wire), with/without MTU and
//              IPv4/IPv6 address (zone = name); InterfaceIdent by name 1..63 (thorough ..255) octets
//   extNarrow  the unmodified round trip through the parser's checksum verification, one symbolic octet per case
//   ipv4       ipv4.Header.Marshal -> ipv4.ParseHeader (Linux byte-order rules): equal header, options 0/4/8 bytes;
//              ParseHeader / icmp.ParseIPv4Header on 20..24 arbitrary bytes never panic
//   ipv4reuse  (shape I) Header.Parse into an arbitrary used Header (any previous fields, options 0..3 words with spare
//              capacity) == ParseHeader into a fresh one, and re-marshals to the wire header; ipv4seq (shape B): one
//              Header receives 3..4 marshalled headers with different option lengths in a row.
//              Known finding C60-ipv4-parse-stale-options: an option-less header keeps the receiver's old Options.
// Outside the claim: ipv4/ipv6 control-message marshal/parse (unsafe casts over syscall structs).
//
// Sensitivity (mut.sh, each caught by this check):
//   icmp/message.go checksum   `s = s + s>>16`  ->  `s = s + s>>15`   (fold; caught by 6 checksum assertions)
//   ipv4/header.go  Marshal    `binary.BigEndian.PutUint16(b[2:4], uint16(h.TotalLen))` (default case) -> LittleEndian
//   icmp/mpls.go    marshal    `byte(ll.Label>>4&0xff)` -> `byte(ll.Label>>3&0xff)`
//   icmp/interface.go parseName `l > 64` -> `l >= 64` (seed C60-C: the largest legal name sub-object; extNames)
//   ipv4/header.go  Parse      options buffer reuse without re-slicing to optlen (seed C60-B; ipv4reuse + ipv4seq)

func init() {
	vfRegister("VerifC60_echo", VerifC60_echo)
	vfRegister("VerifC60_checksumBE", VerifC60_checksumBE)
	vfRegister("VerifC60_extecho", VerifC60_extecho)
	vfRegister("VerifC60_multipart", VerifC60_multipart)
	vfRegister("VerifC60_extNarrow", VerifC60_extNarrow)
	vfRegister("VerifC60_extNames", VerifC60_extNames)
	vfRegister("VerifC60_simple", VerifC60_simple)
	vfRegister("VerifC60_parse", VerifC60_parse)
	vfRegister("VerifC60_parseExt", VerifC60_parseExt)
	vfRegister("VerifC60_ipv4", VerifC60_ipv4)
	vfRegister("VerifC60_ipv4parse", VerifC60_ipv4parse)
	vfRegister("VerifC60_ipv4reuse", VerifC60_ipv4reuse)
	vfRegister("VerifC60_ipv4seq", VerifC60_ipv4seq)
}

// c60sum is the RFC 1071 reference verifier: one's-complement sum of ALL 16-bit words of b (checksum field
// included; odd tail padded with a zero octet), folded to 16 bits; a message verifies iff the result is 0xffff.
// The words are taken in little-endian order (RFC 1071 section 2(B): byte-order independence).
func c60sum(b []byte) uint32 {
	var s uint32
	for i := 0; i+1 < len(b); i += 2 {
		s += uint32(b[i+1])<<8 | uint32(b[i])
	}
	if len(b)%2 == 1 {
		s += uint32(b[len(b)-1])
	}
	s = (s & 0xffff) + (s >> 16)
	s = (s & 0xffff) + (s >> 16)
	return s
}

// c60valid is the RFC 1071 section 1 generation rule used as the oracle for wide symbolic inputs: the
// checksum field at b[off:off+2] equals the complement of the folded one's-complement sum of b with that field
// taken as zero (words in swapped byte order, field stored accordingly: RFC 1071 2(B)). The equivalent
// verification form c60sum(b) == 0xffff is an adder-equivalence problem the solver does not decide for more
// than ~2 symbolic octets; it is asserted, in both byte orders, on narrow inputs by VerifC60_checksumBE.
func c60valid(b []byte, off int) bool {
	var s uint32
	for i := 0; i+1 < len(b); i += 2 {
		if i == off {
			continue
		}
		s += uint32(b[i+1])<<8 | uint32(b[i])
	}
	if len(b)%2 == 1 {
		s += uint32(b[len(b)-1])
	}
	s = (s & 0xffff) + (s >> 16)
	s = (s & 0xffff) + (s >> 16)
	c := ^s & 0xffff
	return vfAnd(b[off] == byte(c), b[off+1] == byte(c>>8))
}

// c60sumBE: the same in network byte order, as RFC 1071 states it.
func c60sumBE(b []byte) uint32 {
	var s uint32
	for i := 0; i+1 < len(b); i += 2 {
		s += uint32(b[i])<<8 | uint32(b[i+1])
	}
	if len(b)%2 == 1 {
		s += uint32(b[len(b)-1]) << 8
	}
	s = (s & 0xffff) + (s >> 16)
	s = (s & 0xffff) + (s >> 16)
	return s
}

// Big-endian cross-check on a narrow input: Echo with symbolic code and one symbolic data octet.
func VerifC60_checksumBE() {
	n := vfLen("datalen", 0, 3)
	data := []byte{0x12, 0xfe, 0x80}[:n]
	if n > 0 {
		data[n-1] = vfU8("data byte")
	}
	m := &Message{Type: ipv4.ICMPTypeEcho, Code: int(vfU8("code")), Body: &Echo{ID: 0xfedc, Seq: 0x01ff, Data: data}}
	wb, err := m.Marshal(nil)
	vfAssert(err == nil, "marshal ok")
	vfAssert(c60sumBE(wb) == 0xffff, "ICMPv4 checksum verifies in network byte order")
	vfAssert(c60sum(wb) == 0xffff, "and in swapped byte order")
	vfReach("end")
}

// c60pseudo: RFC 4443 2.3 / RFC 8200 8.1 pseudo header (upper-layer length filled in) followed by the message.
func c60pseudo(psh, wb []byte) []byte {
	b := append([]byte(nil), psh...)
	l := len(wb)
	b[32], b[33], b[34], b[35] = byte(l>>24), byte(l>>16), byte(l>>8), byte(l)
	return append(b, wb...)
}

// c60zeroExtChecksum returns a copy of wb in which the checksum field of the RFC 4884 extension header at off
// is zero ("no checksum": validExtensionHeader then accepts without recomputing). Used for wide symbolic
// extension contents: the parser's own verification `checksum(b) == 0` of a symbolic checksum is an
// adder-equivalence question the solver does not decide; the marshalled checksum itself is checked by c60valid,
// and VerifC60_extNarrow runs the unmodified round trip with <= 8 symbolic bits inside the extension.
func c60zeroExtChecksum(wb []byte, off int, present bool) []byte {
	b := append([]byte(nil), wb...)
	if present {
		b[off+2], b[off+3] = 0, 0
	}
	return b
}

func c60bytesEq(a, b []byte) bool {
	if len(a) != len(b) {
		return false
	}
	ok := true
	for i := range a {
		ok = vfAnd(ok, a[i] == b[i])
	}
	return ok
}

// c60padEq: got == want padded with zeros to len(got) (RFC 4884 padding of the original datagram).
func c60padEq(got, want []byte) bool {
	if len(got) < len(want) {
		return false
	}
	ok := true
	for i := range got {
		if i < len(want) {
			ok = vfAnd(ok, got[i] == want[i])
		} else {
			ok = vfAnd(ok, got[i] == 0)
		}
	}
	return ok
}

func c60proto(v6 bool) int {
	if v6 {
		return iana.ProtocolIPv6ICMP
	}
	return iana.ProtocolICMP
}

func c60header(m *Message, wb []byte, got *Message, typ Type) {
	vfAssert(got.Type == typ, "type survives")
	vfAssert(got.Code == m.Code, "code survives")
	vfAssert(got.Checksum == int(wb[2])<<8|int(wb[3]), "parsed checksum field is the wire checksum")
}

func VerifC60_echo() {
	v6 := vfBool("v6")
	reply := vfBool("reply")
	var typ Type
	switch {
	case !v6 && !reply:
		typ = ipv4.ICMPTypeEcho
	case !v6 && reply:
		typ = ipv4.ICMPTypeEchoReply
	case v6 && !reply:
		typ = ipv6.ICMPTypeEchoRequest
	default:
		typ = ipv6.ICMPTypeEchoReply
	}
	n := vfLen("datalen", 0, 4+4*vfTier())
	e := &Echo{ID: int(vfU16("id")), Seq: int(vfU16("seq")), Data: vfBytes("data", n)}
	m := &Message{Type: typ, Code: int(vfU8("code")), Body: e}
	var psh []byte
	if v6 && vfBool("pseudo header") {
		psh = IPv6PseudoHeader(net.IP(vfBytes("src", 16)), net.IP(vfBytes("dst", 16)))
		vfReach("v6 with pseudo header")
	}
	wb, err := m.Marshal(psh)
	vfAssert(err == nil, "marshal ok")
	vfAssert(len(wb) == 8+n, "wire length")
	vfObserveBytes("wire", wb)
	if !v6 {
		vfAssert(c60valid(wb, 2), "ICMPv4 output carries a valid RFC 1071 checksum")
		vfReach("v4 checksum")
	} else if psh != nil {
		vfAssert(c60valid(c60pseudo(psh, wb), 42), "ICMPv6 checksum valid over pseudo header + message")
	} else {
		vfAssert(wb[2] == 0 && wb[3] == 0, "ICMPv6 without pseudo header leaves the checksum to the kernel")
	}
	got, err := ParseMessage(c60proto(v6), wb)
	vfAssert(err == nil, "parse ok")
	c60header(m, wb, got, typ)
	ge, ok := got.Body.(*Echo)
	vfAssert(ok, "body kind")
	vfAssert(ge.ID == e.ID && ge.Seq == e.Seq, "id/seq survive")
	vfAssert(c60bytesEq(ge.Data, e.Data), "data survives")
	vfReach("end")
}

func VerifC60_extecho() {
	v6 := vfBool("v6")
	proto := c60proto(v6)
	if vfBool("reply") {
		var typ Type = ipv4.ICMPTypeExtendedEchoReply
		if v6 {
			typ = ipv6.ICMPTypeExtendedEchoReply
		}
		st := int(vfU8("state"))
		vfAssume(st < 8)
		r := &ExtendedEchoReply{ID: int(vfU16("id")), Seq: int(vfU8("seq")), State: st,
			Active: vfBool("active"), IPv4: vfBool("ipv4"), IPv6: vfBool("ipv6")}
		m := &Message{Type: typ, Code: int(vfU8("code")), Body: r}
		wb, err := m.Marshal(nil)
		vfAssert(err == nil && len(wb) == 8, "marshal ok")
		if !v6 {
			vfAssert(c60valid(wb, 2), "v4 checksum")
		}
		got, err := ParseMessage(proto, wb)
		vfAssert(err == nil, "parse ok")
		c60header(m, wb, got, typ)
		gr, ok := got.Body.(*ExtendedEchoReply)
		vfAssert(ok, "body kind")
		vfAssert(*gr == *r, "extended echo reply survives")
		vfReach("reply")
		vfReach("end")
		return
	}
	var typ Type = ipv4.ICMPTypeExtendedEchoRequest
	if v6 {
		typ = ipv6.ICMPTypeExtendedEchoRequest
	}
	q := &ExtendedEchoRequest{ID: int(vfU16("id")), Seq: int(vfU8("seq")), Local: vfBool("local")}
	var ident *InterfaceIdent
	switch vfChoice("extension", 4) {
	case 0:
	case 1:
		n := vfLen("namelen", 1, 3)
		name := vfBytes("name", n)
		for _, c := range name {
			vfAssume(c != 0) // names are NUL-padded on the wire
		}
		ident = &InterfaceIdent{Class: classInterfaceIdent, Type: typeInterfaceByName, Name: string(name)}
		vfReach("ident by name")
	case 2:
		ident = &InterfaceIdent{Class: classInterfaceIdent, Type: typeInterfaceByIndex, Index: int(vfU32("index"))}
		vfReach("ident by index")
	case 3:
		n := vfLen("addrlen", 0, 5)
		ident = &InterfaceIdent{Class: classInterfaceIdent, Type: typeInterfaceByAddress, AFI: int(vfU16("afi")), Addr: vfBytes("addr", n)}
		vfReach("ident by address")
	}
	if ident != nil {
		q.Extensions = []Extension{ident}
	}
	m := &Message{Type: typ, Code: int(vfU8("code")), Body: q}
	wb, err := m.Marshal(nil)
	vfAssert(err == nil, "marshal ok")
	vfObserveBytes("wire", wb)
	if !v6 {
		vfAssert(c60valid(wb, 2), "v4 checksum")
	}
	if ident != nil {
		vfAssert(c60valid(wb[8:], 2), "extension structure carries a valid checksum")
	}
	got, err := ParseMessage(proto, c60zeroExtChecksum(wb, 8, ident != nil))
	vfAssert(err == nil, "parse ok")
	c60header(m, wb, got, typ)
	gq, ok := got.Body.(*ExtendedEchoRequest)
	vfAssert(ok, "body kind")
	vfAssert(gq.ID == q.ID && gq.Seq == q.Seq && gq.Local == q.Local, "id/seq/local survive")
	if ident == nil {
		vfAssert(len(gq.Extensions) == 0, "no extension back")
	} else {
		vfAssert(len(gq.Extensions) == 1, "one extension back")
		gi, ok := gq.Extensions[0].(*InterfaceIdent)
		vfAssert(ok, "extension kind")
		vfAssert(gi.Class == ident.Class && gi.Type == ident.Type, "class/type")
		vfAssert(gi.Name == ident.Name, "name")
		vfAssert(gi.Index == ident.Index && gi.AFI == ident.AFI, "index/afi")
		vfAssert(c60bytesEq(gi.Addr, ident.Addr), "addr")
	}
	vfReach("end")
}

// Unmodified round trip (the parser verifies the extension checksum) with one symbolic octet inside the
// extension structure, the rest from concrete boundary values.
func VerifC60_extNarrow() {
	x := int(vfU8("x"))
	v6 := vfBool("v6")
	proto := c60proto(v6)
	var typ Type = ipv4.ICMPTypeTimeExceeded
	if v6 {
		typ = ipv6.ICMPTypeTimeExceeded
	}
	which := vfChoice("symbolic field", 8)
	var ext Extension
	var ls *MPLSLabelStack
	var ifi *InterfaceInfo
	var ident *InterfaceIdent
	switch which {
	case 0:
		ls = &MPLSLabelStack{Class: 1, Type: 1, Labels: []MPLSLabel{{Label: 0xab000 | x, TC: 5, S: true, TTL: 255}}}
	case 1:
		ls = &MPLSLabelStack{Class: 1, Type: 1, Labels: []MPLSLabel{{Label: x<<12 | 0xfff, TC: 0, S: false, TTL: 1}}}
	case 2:
		ls = &MPLSLabelStack{Class: 1, Type: 1, Labels: []MPLSLabel{{Label: 16, TC: x & 7, S: x&8 != 0, TTL: 64}, {Label: 0xfffff, TC: 7, S: true, TTL: x}}}
	case 3:
		vfAssume(x != 0)
		ifi = &InterfaceInfo{Class: classInterfaceInfo, Type: attrIfIndex | attrMTU, Interface: &net.Interface{Index: x<<24 | 0xffffff, MTU: 1500}}
	case 4:
		vfAssume(x != 0)
		ifi = &InterfaceInfo{Class: classInterfaceInfo, Type: 0x80 | attrIfIndex | attrName | attrMTU, Interface: &net.Interface{Index: 15, Name: string([]byte{'e', byte(x)}), MTU: 0xffff0000 | x}}
	case 5:
		vfAssume(!v6)
		ifi = &InterfaceInfo{Class: classInterfaceInfo, Type: attrIfIndex | attrIPAddr, Interface: &net.Interface{Index: 1}, Addr: &net.IPAddr{IP: net.IP{192, 0, 2, byte(x)}}}
	case 6:
		ident = &InterfaceIdent{Class: classInterfaceIdent, Type: typeInterfaceByIndex, Index: x<<8 | 0x7f0000ff}
	case 7:
		ident = &InterfaceIdent{Class: classInterfaceIdent, Type: typeInterfaceByAddress, AFI: 1, Addr: []byte{10, byte(x), 0xff}}
	}
	switch {
	case ls != nil:
		ext = ls
	case ifi != nil:
		ext = ifi
	default:
		ext = ident
	}
	var m *Message
	if ident != nil {
		typ = ipv4.ICMPTypeExtendedEchoRequest
		if v6 {
			typ = ipv6.ICMPTypeExtendedEchoRequest
		}
		m = &Message{Type: typ, Body: &ExtendedEchoRequest{ID: 0x1234, Seq: 7, Local: which == 6, Extensions: []Extension{ext}}}
	} else {
		m = &Message{Type: typ, Code: 1, Body: &TimeExceeded{Data: []byte{0x45, 0, 0xff}, Extensions: []Extension{ext}}}
	}
	wb, err := m.Marshal(nil)
	vfAssert(err == nil, "marshal ok")
	extOff := 8 + 128
	if ident != nil {
		extOff = 8
	}
	vfAssert(c60sum(wb[extOff:]) == 0xffff, "extension checksum verifies (RFC 1071 verification form)")
	vfAssert(c60sumBE(wb[extOff:]) == 0xffff, "extension checksum verifies in network byte order")
	if !v6 {
		vfAssert(c60sumBE(wb) == 0xffff, "ICMPv4 checksum verifies in network byte order")
	}
	got, err := ParseMessage(proto, wb)
	vfAssert(err == nil, "parse ok")
	var gexts []Extension
	if ident != nil {
		gexts = got.Body.(*ExtendedEchoRequest).Extensions
	} else {
		te := got.Body.(*TimeExceeded)
		vfAssert(len(te.Data) == 128 && te.Data[0] == 0x45 && te.Data[2] == 0xff && te.Data[3] == 0, "padded datagram back")
		gexts = te.Extensions
	}
	vfAssert(len(gexts) == 1, "the parser accepted the checksummed extension structure")
	switch {
	case ls != nil:
		g, ok := gexts[0].(*MPLSLabelStack)
		vfAssert(ok && len(g.Labels) == len(ls.Labels), "label stack back")
		for i := range ls.Labels {
			vfAssert(g.Labels[i] == ls.Labels[i], "label survives")
		}
		vfReach("mpls")
	case ifi != nil:
		g, ok := gexts[0].(*InterfaceInfo)
		vfAssert(ok, "interface info back")
		vfAssert(c60ifiEq(g, ifi), "interface info survives")
		vfReach("interface info")
	default:
		g, ok := gexts[0].(*InterfaceIdent)
		vfAssert(ok, "interface ident back")
		vfAssert(g.Type == ident.Type && g.Index == ident.Index && g.AFI == ident.AFI && c60bytesEq(g.Addr, ident.Addr), "interface ident survives")
		vfReach("interface ident")
	}
	vfReach("end")
}

// c60name: an interface name of n octets; the first, middle and last octets are symbolic (non-NUL: NUL is the wire
// padding), the others concrete letters (every octet symbolic costs one solver query per octet and path).
func c60name(n int) []byte {
	name := make([]byte, n)
	for i := range name {
		name[i] = 'a' + byte(i%26)
	}
	for _, i := range []int{0, n / 2, n - 1} {
		if i >= 0 && i < n {
			c := vfU8("name octet")
			vfAssume(c != 0)
			name[i] = c
		}
	}
	return name
}

// c60sumLen: name lengths for which extNames also asserts the two checksums (the shortest and the longest names;
// the checksum assertions dominate the solver cost, and multipart/extecho assert them for every short body).
func c60sumLen(n int) bool { return n <= 4 || (n >= 59 && n <= 64) || n >= 252 }

// Variable-length name fields of the extension objects over their whole legal length range (octets: see c60name): "all message field values, body sizes and extension combinations" includes every representable
// interface name LENGTH, in particular the longest ones (RFC 5837 4.3: the name sub-object is 4..64 octets long including
// its length octet, i.e. names of 1..63 octets; RFC 8335 2.1: an InterfaceIdent name fills the object, <= 255 here).
func VerifC60_extNames() {
	v6 := vfBool("v6")
	proto := c60proto(v6)
	if vfBool("interface ident") {
		hi := 63
		if vfTier() > 0 {
			hi = 255
		}
		n := vfLen("ident namelen", 1, hi)
		name := c60name(n)
		var typ Type = ipv4.ICMPTypeExtendedEchoRequest
		if v6 {
			typ = ipv6.ICMPTypeExtendedEchoRequest
		}
		ident := &InterfaceIdent{Class: classInterfaceIdent, Type: typeInterfaceByName, Name: string(name)}
		q := &ExtendedEchoRequest{ID: int(vfU16("id")), Seq: int(vfU8("seq")), Local: true, Extensions: []Extension{ident}}
		m := &Message{Type: typ, Code: int(vfU8("code")), Body: q}
		wb, err := m.Marshal(nil)
		vfAssert(err == nil, "marshal ok")
		pad := (n + 3) &^ 3
		vfAssert(len(wb) == 8+4+4+pad, "wire length: header, extension header, object header, padded name")
		vfAssert(int(wb[12])<<8|int(wb[13]) == 4+pad, "object length covers the padded name")
		vfAssert(c60bytesEq(wb[16:16+n], name), "name octets on the wire")
		if c60sumLen(n) {
			if !v6 {
				vfAssert(c60valid(wb, 2), "v4 checksum")
			}
			vfAssert(c60valid(wb[8:], 2), "extension structure carries a valid checksum")
		}
		got, err := ParseMessage(proto, c60zeroExtChecksum(wb, 8, true))
		vfAssert(err == nil, "parse ok")
		c60header(m, wb, got, typ)
		gq, ok := got.Body.(*ExtendedEchoRequest)
		vfAssert(ok, "body kind")
		vfAssert(gq.ID == q.ID && gq.Seq == q.Seq && gq.Local, "id/seq/local survive")
		vfAssert(len(gq.Extensions) == 1, "one extension back")
		gi, ok := gq.Extensions[0].(*InterfaceIdent)
		vfAssert(ok, "extension kind")
		vfAssert(gi.Class == ident.Class && gi.Type == ident.Type, "class/type")
		vfAssert(gi.Name == ident.Name, "ident name survives")
		if n >= 60 {
			vfReach("long ident name")
		}
		vfReach("end")
		return
	}
	n := vfLen("namelen", 0, 63)
	name := c60name(n)
	ifi := &InterfaceInfo{Class: classInterfaceInfo, Interface: &net.Interface{Name: string(name)}}
	idx := int(vfU32("ifindex"))
	vfAssume(idx > 0)
	ifi.Interface.Index = idx
	attrs := attrIfIndex
	nameOff := 8 + 128 + 4 + 4 + 4 // ICMP header, padded datagram, extension header, object header, ifindex
	if n > 0 {
		attrs |= attrName
	}
	if vfBool("mtu") {
		mtu := int(vfU32("mtuval"))
		vfAssume(mtu > 0)
		ifi.Interface.MTU = mtu
		attrs |= attrMTU
	}
	if vfBool("addr") {
		if v6 {
			ip := vfBytes("ip6", 16)
			ip[0] = 0xfe // not an IPv4-mapped address
			ifi.Addr = &net.IPAddr{IP: net.IP(ip), Zone: string(name)}
			nameOff += 4 + 16
		} else {
			ifi.Addr = &net.IPAddr{IP: net.IP(vfBytes("ip", 4))}
			nameOff += 4 + 4
		}
		attrs |= attrIPAddr
	}
	role := int(vfU8("role"))
	vfAssume(role < 4)
	ifi.Type = role<<6 | attrs
	var typ Type = ipv4.ICMPTypeTimeExceeded
	if v6 {
		typ = ipv6.ICMPTypeTimeExceeded
	}
	data := vfBytes("data", 3)
	body := &TimeExceeded{Data: data, Extensions: []Extension{ifi}}
	m := &Message{Type: typ, Code: int(vfU8("code")), Body: body}
	wb, err := m.Marshal(nil)
	vfAssert(err == nil, "marshal ok")
	vfAssert(len(wb) == 4+body.Len(proto), "wire length == 4 + Body.Len")
	sub := 0
	if n > 0 {
		// RFC 5837 4.3: length octet (counts itself), name, zero padding to a 32-bit boundary, at most 64 octets
		sub = (1 + n + 3) &^ 3
		vfAssert(sub <= 64 && len(wb) >= nameOff+sub, "name sub-object fits")
		vfAssert(int(wb[nameOff]) == sub, "name sub-object length octet")
		vfAssert(c60bytesEq(wb[nameOff+1:nameOff+1+n], name), "name octets on the wire")
		for i := nameOff + 1 + n; i < nameOff+sub; i++ {
			vfAssert(wb[i] == 0, "name padding is zero")
		}
	}
	vfAssert(int(wb[8+128+4])<<8|int(wb[8+128+5]) == len(wb)-(8+128+4), "object length covers all sub-objects")
	if c60sumLen(n) {
		if !v6 {
			vfAssert(c60valid(wb, 2), "ICMPv4 output carries a valid RFC 1071 checksum")
		}
		vfAssert(c60valid(wb[8+128:], 2), "extension structure carries a valid checksum")
	}
	got, err := ParseMessage(proto, c60zeroExtChecksum(wb, 8+128, true))
	vfAssert(err == nil, "parse ok")
	c60header(m, wb, got, typ)
	g, ok := got.Body.(*TimeExceeded)
	vfAssert(ok, "body kind")
	vfAssert(len(g.Data) == 128, "padded original datagram back")
	vfAssert(c60padEq(g.Data, data), "data survives (zero padded)")
	vfAssert(len(g.Extensions) == 1, "one extension back")
	gi, ok := g.Extensions[0].(*InterfaceInfo)
	vfAssert(ok, "extension kind")
	vfAssert(c60ifiEq(gi, ifi), "interface info survives")
	if ifi.Addr != nil {
		vfAssert(gi.Addr.Zone == ifi.Addr.Zone, "zone of an IPv6 address is the interface name")
	}
	if sub == 64 {
		vfReach("largest name sub-object")
	}
	if n == 0 {
		vfReach("no name")
	}
	vfReach("end")
}

func c60ifiEq(a, b *InterfaceInfo) bool {
	if a.Class != b.Class || (a.Interface == nil) != (b.Interface == nil) || (a.Addr == nil) != (b.Addr == nil) {
		return false
	}
	ok := a.Type == b.Type
	if a.Interface != nil {
		ok = vfAnd(ok, a.Interface.Index == b.Interface.Index)
		ok = vfAnd(ok, a.Interface.MTU == b.Interface.MTU)
		ok = vfAnd(ok, a.Interface.Name == b.Interface.Name)
	}
	if a.Addr != nil {
		ok = vfAnd(ok, c60bytesEq(a.Addr.IP, b.Addr.IP))
	}
	return ok
}

func VerifC60_multipart() {
	v6 := vfBool("v6")
	proto := c60proto(v6)
	n := vfLen("datalen", 0, 4+4*vfTier())
	data := vfBytes("data", n)
	var exts []Extension
	switch vfChoice("extension", 3) {
	case 0:
	case 1:
		lbl, tc := int(vfU32("label")), int(vfU8("tc"))
		vfAssume(lbl < 1<<20)
		vfAssume(tc < 8)
		exts = []Extension{&MPLSLabelStack{Class: classMPLSLabelStack, Type: typeIncomingMPLSLabelStack,
			Labels: []MPLSLabel{{Label: lbl, TC: tc, S: vfBool("s"), TTL: int(vfU8("ttl"))}}}}
		vfReach("mpls")
	case 2:
		ifi := &InterfaceInfo{Class: classInterfaceInfo, Interface: &net.Interface{}}
		idx := int(vfU32("ifindex"))
		vfAssume(idx > 0)
		ifi.Interface.Index = idx
		attrs := attrIfIndex
		nl := vfLen("namelen", 0, 2)
		if nl > 0 {
			name := vfBytes("name", nl)
			for _, c := range name {
				vfAssume(c != 0)
			}
			ifi.Interface.Name = string(name)
			attrs |= attrName
		}
		if vfBool("mtu") {
			mtu := int(vfU32("mtuval"))
			vfAssume(mtu > 0)
			ifi.Interface.MTU = mtu
			attrs |= attrMTU
		}
		if !v6 && vfBool("addr") {
			ifi.Addr = &net.IPAddr{IP: net.IP(vfBytes("ip", 4))}
			attrs |= attrIPAddr
		}
		role := int(vfU8("role"))
		vfAssume(role < 4)
		ifi.Type = role<<6 | attrs // the c-type carries the attribute bits (RFC 5837 4.1)
		exts = []Extension{ifi}
		vfReach("interface info")
	}
	var typ Type
	var body MessageBody
	kind := vfChoice("kind", 3)
	if v6 {
		vfAssume(kind < 2) // ParamProb v6 has no RFC 4884 structure: see VerifC60_simple
	}
	ptr := uintptr(vfU8("pointer"))
	switch kind {
	case 0:
		typ = ipv4.ICMPTypeDestinationUnreachable
		if v6 {
			typ = ipv6.ICMPTypeDestinationUnreachable
		}
		body = &DstUnreach{Data: data, Extensions: exts}
	case 1:
		typ = ipv4.ICMPTypeTimeExceeded
		if v6 {
			typ = ipv6.ICMPTypeTimeExceeded
		}
		body = &TimeExceeded{Data: data, Extensions: exts}
	case 2:
		typ = ipv4.ICMPTypeParameterProblem
		body = &ParamProb{Pointer: ptr, Data: data, Extensions: exts}
	}
	m := &Message{Type: typ, Code: int(vfU8("code")), Body: body}
	wb, err := m.Marshal(nil)
	vfAssert(err == nil, "marshal ok")
	vfAssert(len(wb) == 4+body.Len(proto), "wire length == 4 + Body.Len")
	if !v6 {
		vfAssert(c60valid(wb, 2), "ICMPv4 output carries a valid RFC 1071 checksum")
	}
	if len(exts) > 0 {
		vfAssert(len(wb) >= 8+128+8, "original datagram padded to 128 octets")
		vfAssert(c60valid(wb[8+128:], 2), "extension structure carries a valid checksum")
	}
	got, err := ParseMessage(proto, c60zeroExtChecksum(wb, 8+128, len(exts) > 0))
	vfAssert(err == nil, "parse ok")
	c60header(m, wb, got, typ)
	var gdata []byte
	var gexts []Extension
	switch kind {
	case 0:
		g, ok := got.Body.(*DstUnreach)
		vfAssert(ok, "body kind")
		gdata, gexts = g.Data, g.Extensions
	case 1:
		g, ok := got.Body.(*TimeExceeded)
		vfAssert(ok, "body kind")
		gdata, gexts = g.Data, g.Extensions
	case 2:
		g, ok := got.Body.(*ParamProb)
		vfAssert(ok, "body kind")
		vfAssert(g.Pointer == ptr, "pointer survives")
		gdata, gexts = g.Data, g.Extensions
	}
	if len(exts) == 0 {
		vfAssert(c60bytesEq(gdata, data), "data survives")
		vfAssert(len(gexts) == 0, "no extensions back")
	} else {
		vfAssert(len(gdata) == 128, "padded original datagram back")
		vfAssert(c60padEq(gdata, data), "data survives (zero padded)")
		vfAssert(len(gexts) == 1, "one extension back")
		switch want := exts[0].(type) {
		case *MPLSLabelStack:
			g, ok := gexts[0].(*MPLSLabelStack)
			vfAssert(ok, "extension kind")
			vfAssert(g.Class == want.Class && g.Type == want.Type && len(g.Labels) == 1, "label stack shape")
			vfAssert(g.Labels[0] == want.Labels[0], "label survives")
		case *InterfaceInfo:
			g, ok := gexts[0].(*InterfaceInfo)
			vfAssert(ok, "extension kind")
			vfAssert(c60ifiEq(g, want), "interface info survives")
		}
	}
	vfReach("end")
}

func VerifC60_simple() {
	n := vfLen("datalen", 0, 4+4*vfTier())
	data := vfBytes("data", n)
	code := int(vfU8("code"))
	switch vfChoice("kind", 4) {
	case 0:
		p := &PacketTooBig{MTU: int(vfU32("mtu")), Data: data}
		m := &Message{Type: ipv6.ICMPTypePacketTooBig, Code: code, Body: p}
		wb, err := m.Marshal(nil)
		vfAssert(err == nil && len(wb) == 8+n, "marshal ok")
		got, err := ParseMessage(iana.ProtocolIPv6ICMP, wb)
		vfAssert(err == nil, "parse ok")
		c60header(m, wb, got, m.Type)
		g, ok := got.Body.(*PacketTooBig)
		vfAssert(ok && g.MTU == p.MTU && c60bytesEq(g.Data, data), "packet too big survives")
		vfReach("packet too big")
	case 1:
		p := &ParamProb{Pointer: uintptr(vfU32("pointer")), Data: data}
		m := &Message{Type: ipv6.ICMPTypeParameterProblem, Code: code, Body: p}
		wb, err := m.Marshal(nil)
		vfAssert(err == nil && len(wb) == 8+n, "marshal ok")
		got, err := ParseMessage(iana.ProtocolIPv6ICMP, wb)
		vfAssert(err == nil, "parse ok")
		c60header(m, wb, got, m.Type)
		g, ok := got.Body.(*ParamProb)
		vfAssert(ok && g.Pointer == p.Pointer && c60bytesEq(g.Data, data) && len(g.Extensions) == 0, "v6 parameter problem survives")
		vfReach("param prob v6")
	case 2:
		m := &Message{Type: ipv4.ICMPTypeTimestamp, Code: code, Body: &RawBody{Data: data}}
		wb, err := m.Marshal(nil)
		vfAssert(err == nil && len(wb) == 4+n, "marshal ok")
		vfAssert(c60valid(wb, 2), "ICMPv4 output carries a valid RFC 1071 checksum")
		got, err := ParseMessage(iana.ProtocolICMP, wb)
		vfAssert(err == nil, "parse ok")
		c60header(m, wb, got, m.Type)
		g, ok := got.Body.(*RawBody)
		vfAssert(ok && c60bytesEq(g.Data, data), "raw body survives")
		vfReach("raw v4")
	case 3:
		m := &Message{Type: ipv6.ICMPTypeRouterSolicitation, Code: code, Body: &RawBody{Data: data}}
		psh := IPv6PseudoHeader(net.IP(vfBytes("src", 16)), net.IP(vfBytes("dst", 16)))
		wb, err := m.Marshal(psh)
		vfAssert(err == nil && len(wb) == 4+n, "marshal ok")
		vfAssert(c60valid(c60pseudo(psh, wb), 42), "ICMPv6 checksum valid over pseudo header + message")
		got, err := ParseMessage(iana.ProtocolIPv6ICMP, wb)
		vfAssert(err == nil, "parse ok")
		c60header(m, wb, got, m.Type)
		g, ok := got.Body.(*RawBody)
		vfAssert(ok && c60bytesEq(g.Data, data), "raw body survives")
		vfReach("raw v6")
	}
	vfReach("end")
}

// c60typeByte restricts the type octet to the registered types plus two unregistered ones.
func c60typeByte(b byte, v6 bool) bool {
	if v6 {
		return vfOr(vfAnd(b >= 1, b <= 4), vfOr(vfAnd(b >= 128, b <= 130), vfAnd(b >= 160, b <= 162)))
	}
	return vfOr(vfOr(b == 0, b == 3), vfOr(vfOr(b == 8, b == 11), vfOr(vfAnd(b >= 12, b <= 13), vfAnd(b >= 42, b <= 44))))
}

func VerifC60_parse() {
	v6 := vfBool("v6")
	n := vfLen("n", 0, 12)
	b := vfBytes("b", n)
	if n > 0 {
		vfAssume(c60typeByte(b[0], v6))
	}
	m, err := ParseMessage(c60proto(v6), b)
	if n < 4 {
		vfAssert(err != nil && m == nil, "short message rejected")
		vfReach("short")
	} else if err == nil {
		vfAssert(m != nil && m.Body != nil, "parsed message has a body")
		vfAssert(m.Code == int(b[1]), "code")
		vfReach("parsed")
	} else {
		vfReach("rejected")
	}
	vfReach("end")
}

// RFC 4884 template: header, 4 leading octets (length attribute symbolic), 128 octets of original datagram
// (first 2 symbolic), extension header with symbolic version/checksum, then 8 arbitrary bytes of objects.
func VerifC60_parseExt() {
	v6 := vfBool("v6")
	b := make([]byte, 4+4+128+4+8)
	if v6 {
		b[0] = byte(ipv6.ICMPTypeTimeExceeded)
	} else {
		b[0] = byte(ipv4.ICMPTypeTimeExceeded)
	}
	lenAttr := vfU8("length attribute")
	vfAssume(vfOr(lenAttr <= 1, vfOr(vfAnd(lenAttr >= 15, lenAttr <= 17), vfOr(vfAnd(lenAttr >= 31, lenAttr <= 36), lenAttr == 255))))
	if v6 {
		b[4] = lenAttr
	} else {
		b[5] = lenAttr
	}
	copy(b[8:], vfBytes("dgram", 2))
	copy(b[8+128:], vfBytes("exthdr", 4))
	copy(b[8+128+4:], vfBytes("objects", 8))
	m, err := ParseMessage(c60proto(v6), b)
	vfAssert(err == nil && m != nil, "multipart parse never fails on a long enough message")
	te, ok := m.Body.(*TimeExceeded)
	vfAssert(ok, "body kind")
	if len(te.Extensions) > 0 {
		declared := 4 * int(lenAttr)
		if v6 {
			declared = 8 * int(lenAttr)
		}
		vfAssert(len(te.Data) == 128 || len(te.Data) == declared && declared > 128, "extensions found at offset 128 or at the declared length")
		vfReach("extensions parsed")
	} else {
		vfReach("no extensions")
	}
	vfReach("end")
}

func VerifC60_ipv4() {
	nopt := 4 * vfLen("optwords", 0, 2)
	h := &ipv4.Header{
		Version:  ipv4.Version,
		Len:      ipv4.HeaderLen + nopt,
		TOS:      int(vfU8("tos")),
		TotalLen: int(vfU16("totallen")),
		ID:       int(vfU16("id")),
		Flags:    ipv4.HeaderFlags(vfU8("flags")),
		FragOff:  int(vfU16("fragoff")),
		TTL:      int(vfU8("ttl")),
		Protocol: int(vfU8("protocol")),
		Checksum: int(vfU16("checksum")),
		Src:      net.IP(vfBytes("src", 4)),
		Dst:      net.IP(vfBytes("dst", 4)),
		Options:  vfBytes("options", nopt),
	}
	vfAssume(h.Flags < 8)
	vfAssume(h.FragOff < 1<<13)
	wb, err := h.Marshal()
	vfAssert(err == nil, "marshal ok")
	vfAssert(len(wb) == h.Len, "wire length")
	vfObserveBytes("wire", wb)
	vfAssert(int(wb[2])<<8|int(wb[3]) == h.TotalLen, "total length is big endian on Linux")
	g, err := ipv4.ParseHeader(wb)
	vfAssert(err == nil, "parse ok")
	vfAssert(g.Version == h.Version && g.Len == h.Len, "version/len")
	vfAssert(g.TOS == h.TOS && g.TotalLen == h.TotalLen && g.ID == h.ID, "tos/totallen/id")
	vfAssert(g.Flags == h.Flags && g.FragOff == h.FragOff, "flags/fragoff")
	vfAssert(g.TTL == h.TTL && g.Protocol == h.Protocol && g.Checksum == h.Checksum, "ttl/protocol/checksum")
	vfAssert(c60bytesEq(g.Src.To4(), h.Src) && c60bytesEq(g.Dst.To4(), h.Dst), "addresses")
	vfAssert(c60bytesEq(g.Options, h.Options), "options")
	g2, err := ParseIPv4Header(wb)
	vfAssert(err == nil, "icmp.ParseIPv4Header ok")
	vfAssert(g2.TotalLen == h.TotalLen && g2.ID == h.ID && g2.TTL == h.TTL && g2.Len == h.Len, "icmp.ParseIPv4Header agrees")
	vfReach("end")
}

// Shape I: (*ipv4.Header).Parse "stores the result in h" — for an ARBITRARY receiver pre-state (a Header kept by a
// receive loop: every scalar field symbolic, Options of any length 0..3 words with 0..2 words of spare capacity and
// symbolic contents, as left behind by an earlier Parse or supplied by the caller as a scratch buffer) the state
// after Parse(wire) is the state ParseHeader(wire) produces in a fresh Header, and marshalling it gives the wire
// header back. On error the receiver is left untouched. Covers the reuse branch of the options buffer
// (cap(h.Options) >= optlen) that ParseHeader never takes.
func VerifC60_ipv4reuse() {
	prevWords := vfLen("prevwords", 0, 3)
	spareWords := vfLen("sparewords", 0, 2)
	prev := make([]byte, 4*prevWords, 4*(prevWords+spareWords))
	copy(prev, vfBytes("prevopts", 4*prevWords))
	h := ipv4.Header{
		Version:  int(vfU8("pversion")),
		Len:      int(vfU8("plen")),
		TOS:      int(vfU8("ptos")),
		TotalLen: int(vfU16("ptotallen")),
		ID:       int(vfU16("pid")),
		Flags:    ipv4.HeaderFlags(vfU8("pflags")),
		FragOff:  int(vfU16("pfragoff")),
		TTL:      int(vfU8("pttl")),
		Protocol: int(vfU8("pprotocol")),
		Checksum: int(vfU16("pchecksum")),
		Src:      net.IP(vfBytes("psrc", 4)),
		Dst:      net.IP(vfBytes("pdst", 4)),
	}
	if prevWords+spareWords > 0 || vfBool("emptyNonNil") {
		h.Options = prev
	}
	// the header on the wire: 20 fixed octets (IHL symbolic) + 0..3 words of further octets, possibly truncated
	n := 20 + 4*vfLen("wirewords", 0, 3)
	wire := vfBytes("wire", n)
	hl := int(vfConcretize(uint64(wire[0]&0x0f))) << 2
	err := h.Parse(wire)
	if hl > n {
		vfAssert(err != nil, "truncated header rejected")
		vfAssert(len(h.Options) == 4*prevWords && c60bytesEq(h.Options, prev), "receiver options untouched on error")
		vfReach("reuse: truncated")
		vfReach("end")
		return
	}
	vfAssert(err == nil, "parse into a used header ok")
	f, ferr := ipv4.ParseHeader(wire)
	vfAssert(ferr == nil && f != nil, "parse into a fresh header ok")
	vfAssert(h.Version == f.Version && h.Len == f.Len && h.Len == hl, "version/len as in a fresh header")
	vfAssert(h.TOS == f.TOS && h.TotalLen == f.TotalLen && h.ID == f.ID, "tos/totallen/id as in a fresh header")
	vfAssert(h.Flags == f.Flags && h.FragOff == f.FragOff, "flags/fragoff as in a fresh header")
	vfAssert(h.TTL == f.TTL && h.Protocol == f.Protocol && h.Checksum == f.Checksum, "ttl/protocol/checksum as in a fresh header")
	vfAssert(c60bytesEq(h.Src, f.Src) && c60bytesEq(h.Dst, f.Dst), "addresses as in a fresh header")
	optlen := 0
	if hl > ipv4.HeaderLen {
		optlen = hl - ipv4.HeaderLen
	}
	vfObserve("optlen", uint64(optlen))
	vfObserve("gotoptlen", uint64(len(h.Options)))
	if optlen > 0 {
		vfAssert(len(h.Options) == optlen, "options length is the header's, whatever the receiver held before")
		vfAssert(c60bytesEq(h.Options, wire[ipv4.HeaderLen:hl]), "options are the header's")
		if 4*(prevWords+spareWords) >= optlen {
			if 4*prevWords > optlen {
				vfReach("reuse: options buffer shrunk")
			} else if 4*prevWords < optlen {
				vfReach("reuse: options buffer extended within capacity")
			}
		} else {
			vfReach("reuse: options buffer grown")
		}
	} else {
		// a header without options (IHL <= 5): the fresh Header has none
		vfAssert(len(f.Options) == 0, "fresh header has no options")
		vfAssertKF(len(h.Options) == 0, "no options left over from the receiver's previous contents",
			"C60-ipv4-parse-stale-options", prevWords > 0)
		vfReach("reuse: header without options")
	}
	// marshal what was parsed: the wire header again (Marshal always writes version 4 and derives IHL from the
	// options, so this holds for well-formed headers: version 4, IHL >= 5)
	if hl >= ipv4.HeaderLen {
		wb, merr := h.Marshal()
		vfAssert(merr == nil, "re-marshal ok")
		vfAssert(len(wb) == hl, "re-marshalled length")
		if wire[0]>>4 == ipv4.Version {
			vfAssert(c60bytesEq(wb, wire[:hl]), "re-marshal of the parsed header gives the wire header")
			vfReach("reuse: re-marshalled")
		}
	}
	vfReach("end")
}

// Shape B companion of ipv4reuse: one Header value, starting from the zero Header, receives k marshalled headers in
// a row (a receive loop), each with its own number of option words and symbolic ID/options; after every step the
// Header equals the one that was marshalled and marshals to the same bytes.
func VerifC60_ipv4seq() {
	steps := 3
	if vfTier() == 1 {
		steps = 4
	}
	var h ipv4.Header
	hadOptions := false
	for i := 0; i < steps; i++ {
		nopt := 4 * vfLen("optwords", 0, 3)
		src := &ipv4.Header{
			Version:  ipv4.Version,
			Len:      ipv4.HeaderLen + nopt,
			TotalLen: int(vfU16("totallen")),
			ID:       int(vfU16("id")),
			TTL:      int(vfU8("ttl")),
			Src:      net.IP(vfBytes("src", 4)),
			Dst:      net.IP(vfBytes("dst", 4)),
			Options:  vfBytes("options", nopt),
		}
		wire, err := src.Marshal()
		vfAssert(err == nil && len(wire) == src.Len, "marshal ok")
		vfAssert(h.Parse(wire) == nil, "parse ok")
		vfAssert(h.Len == src.Len && h.ID == src.ID && h.TotalLen == src.TotalLen && h.TTL == src.TTL, "scalar fields of this step")
		vfAssert(c60bytesEq(h.Src.To4(), src.Src) && c60bytesEq(h.Dst.To4(), src.Dst), "addresses of this step")
		if nopt > 0 {
			vfAssert(c60bytesEq(h.Options, src.Options), "options of this step")
			hadOptions = true
		} else {
			vfAssertKF(len(h.Options) == 0, "no options left over from an earlier step", "C60-ipv4-parse-stale-options", hadOptions)
		}
		wb, err := h.Marshal()
		vfAssert(err == nil && c60bytesEq(wb, wire), "re-marshal gives this step's wire header")
		vfObserveBytes("rewire", wb)
	}
	vfReach("end")
}

func VerifC60_ipv4parse() {
	n := vfLen("n", 18, 24)
	b := vfBytes("b", n)
	h, err := ipv4.ParseHeader(b)
	hl := int(b[0]&0x0f) << 2
	if n < 20 {
		vfAssert(err != nil, "short header rejected")
	} else if hl > n {
		vfAssert(err != nil, "truncated extension header rejected")
		vfReach("truncated")
	} else {
		vfAssert(err == nil && h.Len == hl, "accepted")
		if hl > 20 {
			vfAssert(len(h.Options) == hl-20, "options length")
			vfReach("options")
		}
		vfReach("accepted")
	}
	ParseIPv4Header(b)
	vfReach("end")
}
