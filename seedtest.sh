#!/bin/sh
# usage: seedtest.sh <ID> <X> [extra symgo args]   (seed in /tmp/seed/<ID>/out/<X> or /verif/seeded/<ID>-<X>)
# 1. confirms the demonstration: fails on a scratch copy of /repo with the patch, passes on a clean scratch copy
# 2. runs the /verif check for <ID> against the patched scratch copy
D=$(cd "$(dirname "$0")" && pwd)
id="$1"; x="$2"; shift 2
S="$D/seeded/$id-$x"; [ -d "$S" ] || S="${SEEDROOT:-/tmp/seed}/$id/out/$x"
[ -f "$S/patch.diff" ] || { echo "no seed at $S"; exit 2; }
M=$(mktemp -d /tmp/seedrepo.XXXXXX); C=$(mktemp -d /tmp/seedclean.XXXXXX)
trap 'rm -rf "$M" "$C"' EXIT
rsync -a --exclude .git /repo/ "$M/"; rsync -a --exclude .git /repo/ "$C/"
(cd "$M" && patch -p1 -s < "$S/patch.diff") || { echo "PATCH DOES NOT APPLY"; exit 2; }
pkgdir=$(grep -m1 -o 'package directory: *[A-Za-z0-9_/.-]*' "$S/demo_test.go" | sed 's/.*: *//; s#/$##')
[ -z "$pkgdir" ] && pkgdir=$(grep -m1 '^+++ b/' "$S/patch.diff" | sed 's#+++ b/##; s#/[^/]*$##')
cp "$S/demo_test.go" "$M/$pkgdir/zz_seed_demo_test.go"; cp "$S/demo_test.go" "$C/$pkgdir/zz_seed_demo_test.go"
tests=$(grep -o '^func Test[A-Za-z0-9_]*' "$S/demo_test.go" | sed 's/func //' | paste -sd'|')
echo "demo: pkg=$pkgdir tests=$tests"
(cd "$M" && env -u GOFLAGS -u GOSUMDB GOPROXY=off timeout 600 go test -vet=off -count=1 -run "^($tests)\$" ./$pkgdir/ 2>&1 | tail -3 | sed 's/^/  mutated: /')
(cd "$C" && env -u GOFLAGS -u GOSUMDB GOPROXY=off timeout 600 go test -vet=off -count=1 -run "^($tests)\$" ./$pkgdir/ 2>&1 | tail -1 | sed 's/^/  clean:   /')
rm -f "$M/$pkgdir/zz_seed_demo_test.go"
cd "$D" && VERIF_DIR="$D" VERIF_REPO="$M" timeout 1500 ./bin/symgo check "$id" --no-evidence "$@" 2>&1 | grep -v "^\s*/\|^main\.\|^goroutine\|^created" | grep "VIOLATION\|violation:\|^OK\|INCONCLUSIVE\|ENGINE\|KNOWN" | cut -c1-260 | head -12
