package timeseries

import (
	"testing"
	"time"
)

// Public-API-level reproduction of the C61 finding (overlay into /repo/internal/timeseries to run):
// after Latest()/LatestBuckets() advanced the levels to the clock, an observation added with a timestamp that is
// newer than the pending time but older than the newest bucket is parked in the pending slot with
// pendingTime = end of the NEWEST bucket; it is later merged into the wrong bucket of every level, so
// bucket-aligned ranges do not report it where it was added (and report it where it was not).
type reproClock struct{ now time.Time }

func (c *reproClock) Time() time.Time { return c.now }

func TestVerifReproC61AddBehindClock(t *testing.T) {
	base := time.Date(2013, 1, 1, 0, 0, 0, 0, time.UTC)
	at := func(s int) time.Time { return base.Add(time.Duration(s) * time.Second) }
	clk := &reproClock{now: at(100)}
	ts := NewTimeSeriesWithClock(NewFloat, clk)
	one, ten := Float(1), Float(10)
	ts.AddWithTime(&one, at(100)) // pendingTime = 100 s
	clk.now = at(200)
	ts.Latest(0, 1)                // levels advance to 200 s; pendingTime stays 100 s
	ts.AddWithTime(&ten, at(150)) // 100 s < t <= 199 s: parked with pendingTime = 200 s
	clk.now = at(200)
	ts.AddWithTime(&one, at(200)) // make lastAdd = 200 s so that no bucket is clipped
	if got := ts.Total().(*Float).Value(); got != 12 {
		t.Errorf("Total = %v, want 12", got)
	}
	if got := ts.Range(at(149), at(150)).(*Float).Value(); got != 10 {
		t.Errorf("Range(149s,150s] = %v, want 10 (the observation added at 150 s)", got)
	}
	if got := ts.Range(at(199), at(200)).(*Float).Value(); got != 1 {
		t.Errorf("Range(199s,200s] = %v, want 1", got)
	}
}
