package webdav_test

// Public-API reproductions of the C46 known findings (each subtest FAILS on the unchanged tree), for both the
// in-memory and the native (Dir over a temporary directory) file system. Run (nothing is written into /repo):
//   printf '{"Replace":{"/repo/webdav/zz_c46_repro_test.go":"%s"}}' $VERIF_DIR/repro/C46/copymove_destroys_source_test.go > /tmp/ov.json
//   cd /repo && go test -overlay /tmp/ov.json -run TestVerifReproC46 ./webdav/

import (
	"context"
	"io"
	"net/http"
	"net/http/httptest"
	"os"
	"testing"
	"time"

	"golang.org/x/net/webdav"
)

func c46tree(t *testing.T, fs webdav.FileSystem) {
	ctx := context.Background()
	if err := fs.Mkdir(ctx, "/d", 0777); err != nil {
		t.Fatal(err)
	}
	f, err := fs.OpenFile(ctx, "/d/c", os.O_RDWR|os.O_CREATE, 0666)
	if err != nil {
		t.Fatal(err)
	}
	f.Write([]byte("content of c"))
	f.Close()
}

func c46content(fs webdav.FileSystem, name string) string {
	f, err := fs.OpenFile(context.Background(), name, os.O_RDONLY, 0)
	if err != nil {
		return "<" + err.Error() + ">"
	}
	defer f.Close()
	if fi, err := f.Stat(); err == nil && fi.IsDir() {
		return "<dir>"
	}
	b, _ := io.ReadAll(f)
	return string(b)
}

func c46do(h *webdav.Handler, method, src string, hdr map[string]string) int {
	r := httptest.NewRequest(method, "http://example.com"+src, nil)
	for k, v := range hdr {
		r.Header.Set(k, v)
	}
	w := httptest.NewRecorder()
	h.ServeHTTP(w, r)
	return w.Code
}

func TestVerifReproC46(t *testing.T) {
	for _, fsName := range []string{"memFS", "Dir"} {
		newFS := func() webdav.FileSystem {
			if fsName == "Dir" {
				return webdav.Dir(t.TempDir())
			}
			return webdav.NewMemFS()
		}
		// C46-destination-spelling-of-source
		t.Run(fsName+"/COPY-dir-onto-trailing-slash-spelling", func(t *testing.T) {
			fs := newFS()
			c46tree(t, fs)
			h := &webdav.Handler{FileSystem: fs, LockSystem: webdav.NewMemLS()}
			code := c46do(h, "COPY", "/d", map[string]string{"Destination": "/d/"})
			if got := c46content(fs, "/d/c"); got != "content of c" {
				t.Errorf("COPY /d -> Destination: /d/ (status %d): /d/c is now %q; the source's child was destroyed", code, got)
			}
		})
		t.Run(fsName+"/MOVE-onto-trailing-slash-spelling-with-lock-token", func(t *testing.T) {
			fs := newFS()
			c46tree(t, fs)
			ls := webdav.NewMemLS()
			tok, err := ls.Create(time.Now(), webdav.LockDetails{Root: "/d", Duration: -1})
			if err != nil {
				t.Fatal(err)
			}
			h := &webdav.Handler{FileSystem: fs, LockSystem: ls}
			code := c46do(h, "MOVE", "/d", map[string]string{"Destination": "/d/", "Overwrite": "T", "If": "(<" + tok + ">)"})
			if got := c46content(fs, "/d/c"); got != "content of c" {
				t.Errorf("MOVE /d -> Destination: /d/ with Overwrite: T (status %d): /d/c is now %q, /d is %q; the source was deleted, not moved",
					code, got, c46content(fs, "/d"))
			}
		})
		// C46-destination-is-ancestor-of-source
		t.Run(fsName+"/MOVE-onto-own-parent", func(t *testing.T) {
			fs := newFS()
			c46tree(t, fs)
			h := &webdav.Handler{FileSystem: fs, LockSystem: webdav.NewMemLS()}
			code := c46do(h, "MOVE", "/d/c", map[string]string{"Destination": "/d", "Overwrite": "T"})
			atSrc, atDst := c46content(fs, "/d/c"), c46content(fs, "/d")
			if atSrc != "content of c" && atDst != "content of c" {
				t.Errorf("MOVE /d/c -> /d with Overwrite: T (status %d): /d/c is %q and /d is %q; the source is gone and was not moved",
					code, atSrc, atDst)
			}
		})
		t.Run(fsName+"/COPY-onto-own-parent", func(t *testing.T) {
			fs := newFS()
			c46tree(t, fs)
			h := &webdav.Handler{FileSystem: fs, LockSystem: webdav.NewMemLS()}
			code := c46do(h, "COPY", "/d/c", map[string]string{"Destination": "/d"})
			if got := c46content(fs, "/d/c"); got != "content of c" {
				t.Errorf("COPY /d/c -> /d (status %d): source /d/c is now %q (destination /d is %q)", code, got, c46content(fs, "/d"))
			}
		})
	}
	_ = http.StatusOK
}
