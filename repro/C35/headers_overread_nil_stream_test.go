package http3

import (
	"testing"
	"testing/synctest"
)

type verifReproC35Handler struct{ aborted error }

func (h *verifReproC35Handler) handleControlStream(*stream) error { return nil }
func (h *verifReproC35Handler) handlePushStream(*stream) error    { return nil }
func (h *verifReproC35Handler) handleEncoderStream(*stream) error { return nil }
func (h *verifReproC35Handler) handleDecoderStream(*stream) error { return nil }
func (h *verifReproC35Handler) handleRequestStream(st *stream) error {
	// what serverConn.handleRequestStream does first (server.go parseHeader)
	if _, err := st.readFrameHeader(); err != nil {
		return err
	}
	var dec qpackDecoder
	return dec.decode(st, func(indexType, string, string) error { return nil })
}
func (h *verifReproC35Handler) abort(err error) { h.aborted = err }

// Reproduction of the C35 finding C35-overread-nil-stream (overlay into /repo/internal/http3 to run).
// A peer opens a request stream and sends the two bytes 01 00: a HEADERS frame with an empty payload.
// qpackDecoder.decode reads the first byte of the field section past the frame limit; stream.recordBytesRead
// sets st.stream = nil ("panic if we try to read again") and returns a *connectionError, which
// readPrefixedInt replaces by the plain http3Error errQPACKDecompressionFailed. genericConn.handleStreamError
// does not know that error type, takes its default branch and calls st.stream.CloseRead() on the nil stream:
// nil pointer dereference in the per-stream goroutine (no recover), i.e. the process dies.
func TestVerifReproC35OverreadNilStream(t *testing.T) {
	st1, st2 := newStreamPair(t)
	st1.Write([]byte{byte(frameTypeHeaders), 0x00})
	st1.Flush()
	h := &verifReproC35Handler{}
	var c genericConn
	defer func() {
		if p := recover(); p != nil {
			t.Fatalf("handleRequestStream panicked: %v", p)
		}
	}()
	c.handleRequestStream(st2, h)
	if h.aborted == nil {
		t.Logf("stream error handled without abort")
	}
}

// The same through the real server (server.serve -> acceptStreams -> go handleRequestStream): the test binary
// dies with "panic: runtime error: invalid memory address or nil pointer dereference" in
// (*quic.Stream).CloseRead called from (*genericConn).handleStreamError; it cannot be recovered from the test.
func TestVerifReproC35ServerCrash(t *testing.T) {
	synctest.Test(t, func(t *testing.T) {
		ts := newTestServer(t, nil)
		tc := ts.connect()
		tc.greet()
		req := tc.newStream(streamTypeRequest)
		req.writeVarint(int64(frameTypeHeaders))
		req.writeVarint(0) // empty HEADERS frame
		req.Flush()
		synctest.Wait()
		t.Log("server survived")
	})
}
