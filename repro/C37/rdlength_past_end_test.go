package dnsmessage_test

import (
	"testing"

	"golang.org/x/net/dns/dnsmessage"
)

// Public-API reproduction of the C37 finding (key C37-rdlength-past-end); overlay into /repo/dns/dnsmessage to run:
//
//	go test -overlay <(echo '{"Replace":{"/repo/dns/dnsmessage/zz_repro_c37_test.go":"/verif/repro/C37/rdlength_past_end_test.go"}}') \
//	    -run TestVerifReproC37 ./dns/dnsmessage/
//
// An A record whose RDLENGTH (0xFFFF) runs far past the end of the message is accepted by Parser.Answer and
// Message.Unpack (only the 4 address bytes are looked at; the parser offset ends up beyond len(msg)), while
// Parser.SkipAnswer on the same input rejects it with "insufficient data for resource body length".
// C37: "Skip methods advance to the same position as the corresponding parse methods".
func TestVerifReproC37RDLengthPastEnd(t *testing.T) {
	msg := []byte{
		0, 1, 0x81, 0x80, 0, 0, 0, 1, 0, 0, 0, 0, // header: 1 answer
		0,    // root name
		0, 1, // TYPE A
		0, 1, // CLASS IN
		0, 0, 0, 5, // TTL
		0xFF, 0xFF, // RDLENGTH = 65535, but only 4 bytes follow
		192, 0, 2, 1,
	}
	var m dnsmessage.Message
	uerr := m.Unpack(msg)

	var p dnsmessage.Parser
	if _, err := p.Start(msg); err != nil {
		t.Fatal(err)
	}
	if err := p.SkipAllQuestions(); err != nil {
		t.Fatal(err)
	}
	twin := p
	_, perr := p.Answer()
	serr := twin.SkipAnswer()
	t.Logf("Unpack: %v; Answer: %v; SkipAnswer: %v", uerr, perr, serr)
	if (perr == nil) != (serr == nil) {
		t.Fatalf("Answer() error = %v but SkipAnswer() error = %v on the same record", perr, serr)
	}
}
