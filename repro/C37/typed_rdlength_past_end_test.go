package dnsmessage_test

import (
	"testing"

	"golang.org/x/net/dns/dnsmessage"
)

// Public-API reproduction of the C37 finding (key C37-typed-rdlength-past-end); overlay into /repo/dns/dnsmessage to run:
//
//	go test -overlay <(echo '{"Replace":{"/repo/dns/dnsmessage/zz_repro_c37b_test.go":"/verif/repro/C37/typed_rdlength_past_end_test.go"}}') \
//	    -run TestVerifReproC37Typed ./dns/dnsmessage/
//
// An A record whose RDLENGTH (0xFFFF) runs far past the end of the message is rejected by Message.Unpack, Parser.Answer
// and Parser.SkipAnswer ("insufficient data for resource body length"), but the other streaming route over the same
// bytes, Parser.AnswerHeader followed by the typed body method Parser.AResource, decodes the record without an error
// (only the 4 address bytes are looked at; the parser offset ends up beyond len(msg)) and the parser then reports the
// section as done: the streaming Parser has decoded a complete message that Unpack rejects.
// C37: "Message.Unpack and the streaming Parser ... agree on the decoded message".
// (Same class as the repaired finding C37-rdlength-past-end, commit 31ac969: that repair put the bounds check into
// unpackResourceBody, which the typed body methods CNAMEResource/MXResource/.../UnknownResource do not go through.)
func TestVerifReproC37TypedRDLengthPastEnd(t *testing.T) {
	msg := []byte{
		0, 1, 0x81, 0x80, 0, 0, 0, 1, 0, 0, 0, 0, // header: 1 answer
		0,    // root name
		0, 1, // TYPE A
		0, 1, // CLASS IN
		0, 0, 0, 5, // TTL
		0xFF, 0xFF, // RDLENGTH = 65535, but only 4 bytes follow
		192, 0, 2, 1,
	}
	var m dnsmessage.Message
	uerr := m.Unpack(msg)

	var p dnsmessage.Parser
	if _, err := p.Start(msg); err != nil {
		t.Fatal(err)
	}
	if err := p.SkipAllQuestions(); err != nil {
		t.Fatal(err)
	}
	twin := p
	_, aerr := twin.Answer()

	h, herr := p.AnswerHeader()
	if herr != nil {
		// (after the repair in /repo the header method itself rejects the record: consistent with Unpack)
		if uerr == nil {
			t.Fatalf("AnswerHeader error = %v but Message.Unpack accepts the message", herr)
		}
		return
	}
	body, berr := p.AResource()
	_, nerr := p.AnswerHeader()
	t.Logf("Unpack: %v; Answer: %v; AnswerHeader+AResource: header %+v body %v err %v; next AnswerHeader: %v", uerr, aerr, h, body, berr, nerr)
	if (uerr == nil) != (berr == nil) {
		t.Fatalf("Message.Unpack error = %v but AnswerHeader+AResource error = %v on the same record", uerr, berr)
	}
}
