#!/bin/sh
# Runs the C07 observation against /repo (or $VERIF_REPO) through a go test overlay; /repo is not modified.
D=$(cd "$(dirname "$0")" && pwd)
R="${VERIF_REPO:-/repo}"
O=$(mktemp /tmp/c07overlay.XXXXXX.json)
trap 'rm -f "$O"' EXIT
printf '{"Replace":{"%s/http2/zz_c07_repro_test.go":"%s/maxheaderlistsize_overflow_test.go"}}' "$R" "$D" > "$O"
cd "$R" && env -u GOFLAGS GOPROXY=off go test -vet=off -count=1 -overlay "$O" -run 'TestVerifReproC07' ./http2
