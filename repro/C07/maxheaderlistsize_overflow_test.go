package http2_test

// Observation made while checking C07 (outside the C07 statement: availability, not validation).
// Framer.readMetaFrame computes `2*remainSize` in uint32. With MaxHeaderListSize in [2^31, 2^31+k] the product
// wraps to 2k, so every HEADERS frame whose fragment is longer than 2k bytes is rejected with
// ConnectionError(PROTOCOL_ERROR) although the header list is far below the limit. Reachable through
// Transport.MaxHeaderListSize (values below 0xffffffff are passed to the Framer unchanged).
// Run: overlay this file into /repo/http2 (see ../C06/run.sh for the pattern).

import (
	"bytes"
	"testing"

	"golang.org/x/net/http2"
	"golang.org/x/net/http2/hpack"
)

func TestVerifReproC07MaxHeaderListSizeOverflow(t *testing.T) {
	var buf bytes.Buffer
	fr := http2.NewFramer(&buf, &buf)
	fr.ReadMetaHeaders = hpack.NewDecoder(4096, nil)
	fr.MaxHeaderListSize = 1 << 31
	// one indexed field ":method: GET" (42 bytes of header list)
	if err := fr.WriteHeaders(http2.HeadersFrameParam{StreamID: 1, BlockFragment: []byte{0x82}, EndHeaders: true}); err != nil {
		t.Fatal(err)
	}
	if _, err := fr.ReadFrame(); err != nil {
		t.Fatalf("42-byte header list rejected with MaxHeaderListSize=2^31: %v", err)
	}
}
