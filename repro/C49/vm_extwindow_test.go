package bpf_test

import (
	"testing"

	"golang.org/x/net/bpf"
)

// Public-API reproduction of the C49 known finding C49-abs-extwindow (sh repro/run.sh C49 bpf). FAILS on the
// unchanged tree.
//
// LoadAbsolute{Off: 0xfffff001, Size: 4} is accepted by NewVM and assembles to {0x20, K=0xfffff001}. As assembled,
// this word is an extension load: the package's own Disassemble returns LoadExtension{ExtLen} for it (and
// LoadAbsolute.String prints the extension mnemonic for every offset in the window). The VM however executes it as an
// out-of-bounds packet load and terminates with verdict 0, so the same assembled program gives two different verdicts
// depending on whether the VM is built from the typed program or from its disassembly.
func TestVerifReproC49ExtWindow(t *testing.T) {
	prog := []bpf.Instruction{
		bpf.LoadAbsolute{Off: 0xfffff001, Size: 4},
		bpf.RetConstant{Val: 7},
	}
	raw, err := bpf.Assemble(prog)
	if err != nil {
		t.Fatal(err)
	}
	dis, all := bpf.Disassemble(raw)
	if !all {
		t.Fatalf("not fully decoded: %v", dis)
	}
	t.Logf("typed: %v  assembled: %v  disassembled: %v", prog, raw, dis)
	pkt := []byte{1, 2, 3}
	run := func(p []bpf.Instruction) int {
		vm, err := bpf.NewVM(p)
		if err != nil {
			t.Fatalf("NewVM(%v): %v", p, err)
		}
		n, err := vm.Run(pkt)
		if err != nil {
			t.Fatalf("Run: %v", err)
		}
		return n
	}
	a, b := run(prog), run(dis)
	if a != b {
		t.Errorf("same assembled program %v: VM verdict %d from the typed program, %d from its disassembly (classic BPF: extension load, then ret #7 => 7)", raw, a, b)
	}
}
