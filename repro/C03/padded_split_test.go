package hpack

import "testing"

// Public-API reproduction of the C03 finding (overlay into /repo/http2/hpack to run): a literal field whose two
// length integers are padded to 10 bytes, maxStrLen=127, accepted in one Write, was rejected when split near its end.
func TestVerifReproC03PaddedSplit(t *testing.T) {
	pad := func(dst []byte) []byte {
		dst = append(dst, 0x7f)
		for i := 0; i < 8; i++ {
			dst = append(dst, 0x80)
		}
		return append(dst, 0x00)
	}
	block := pad([]byte{0x00})
	for i := 0; i < 127; i++ {
		block = append(block, 'a')
	}
	block = pad(block)
	for i := 0; i < 127; i++ {
		block = append(block, 'b')
	}
	for split := 1; split < len(block); split++ {
		n := 0
		d := NewDecoder(4096, func(HeaderField) { n++ })
		d.SetMaxStringLength(127)
		if _, err := d.Write(block[:split]); err != nil {
			t.Fatalf("split %d: first chunk: %v", split, err)
		}
		if _, err := d.Write(block[split:]); err != nil {
			t.Fatalf("split %d: second chunk: %v", split, err)
		}
		if err := d.Close(); err != nil || n != 1 {
			t.Fatalf("split %d: close %v, fields %d", split, err, n)
		}
	}
}
