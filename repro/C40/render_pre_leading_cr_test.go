package html_test

import (
	"bytes"
	"strings"
	"testing"

	"golang.org/x/net/html"
)

// Public-API reproduction of known finding C40-pre-leading-cr (copy/overlay into /repo/html to run):
// "Render followed by Parse reproduces text values under ordinary elements" fails for a text node that is the first
// child of <pre>, <listing> or <textarea> and starts with CR. Render writes the CR as "&#13;" and adds its
// compensating newline only for a leading "\n"; the parser's "ignore a newline at the start of a <pre> block" also
// drops a leading CR (which after the tokenizer's CR -> LF conversion can only come from a character reference) and
// an LF after it. The HTML standard ignores only a U+000A LINE FEED character token after these start tags.
func TestVerifReproC40PreLeadingCR(t *testing.T) {
	for _, tag := range []string{"pre", "listing", "textarea"} {
		for _, text := range []string{"\rX", "\r", "\r\nX"} {
			el := &html.Node{Type: html.ElementNode, Data: tag}
			el.AppendChild(&html.Node{Type: html.TextNode, Data: text})
			var buf bytes.Buffer
			if err := html.Render(&buf, el); err != nil {
				t.Fatal(err)
			}
			doc, err := html.Parse(strings.NewReader(buf.String()))
			if err != nil {
				t.Fatal(err)
			}
			var got []string
			for n := range doc.Descendants() {
				if n.Type == html.TextNode {
					got = append(got, n.Data)
				}
			}
			if len(got) != 1 || got[0] != text {
				t.Errorf("<%s> with text %q renders as %q and parses back with text %q", tag, text, buf.String(), got)
			}
		}
	}
}
