package html_test

import (
	"strings"
	"testing"

	"golang.org/x/net/html"
)

// Public-API reproductions of the C40 findings (copy/overlay into /repo/html to run):
// "for every tag, comment or doctype token, tokenizing its Token.String() yields an equal token" fails for
//   - a doctype token whose Data starts with white space (possible only through a character reference), and
//   - a comment token whose Data contains CR (possible only through "&#13;" / "&#xd;").

func first(t *testing.T, s string) html.Token {
	z := html.NewTokenizer(strings.NewReader(s))
	if z.Next() == html.ErrorToken {
		t.Fatalf("no token in %q", s)
	}
	return z.Token()
}

func TestVerifReproC40DoctypeLeadingSpace(t *testing.T) {
	tok := first(t, "<!DOCTYPE &#9;html>")
	if tok.Type != html.DoctypeToken || tok.Data != "\thtml" {
		t.Fatalf("unexpected first token %#v", tok)
	}
	again := first(t, tok.String()) // "<!DOCTYPE \thtml>"
	if again.Type != tok.Type || again.Data != tok.Data {
		t.Fatalf("Token.String() = %q re-tokenizes to Data %q, want %q", tok.String(), again.Data, tok.Data)
	}
}

func TestVerifReproC40CommentCR(t *testing.T) {
	tok := first(t, "<!--a&#13;b-->")
	if tok.Type != html.CommentToken || tok.Data != "a\rb" {
		t.Fatalf("unexpected first token %#v", tok)
	}
	again := first(t, tok.String()) // "<!--a\rb-->"
	if again.Type != tok.Type || again.Data != tok.Data {
		t.Fatalf("Token.String() = %q re-tokenizes to Data %q, want %q", tok.String(), again.Data, tok.Data)
	}
}
