package http2

import "testing"

// Reproduction of the C12 finding "C12-rfc7540-closestream" (overlay into /repo/http2 to run, see run.sh):
// priorityWriteSchedulerRFC7540.CloseStream pools a *copy* of the node's writeQueue (q := n.q;
// ws.queuePool.put(&q)) and never resets n.q. The closed node stays in the priority tree (default config:
// MaxClosedNodesInTree = 10) with slice headers of non-zero length over the zeroed backing array, so Pop
// walks into it and returns ok=true with an empty FrameWriteRequest (write == nil).
func TestVerifReproC12CloseStreamEmptyRequest(t *testing.T) {
	ws := NewPriorityWriteScheduler(nil)
	ws.OpenStream(1, OpenStreamOptions{})
	ws.Push(makeWriteHeadersRequest(1))
	ws.CloseStream(1) // the queued frame must be discarded
	wr, ok := ws.Pop()
	if ok {
		t.Fatalf("Pop after CloseStream returned ok=true with request %v (write == nil: %v); want ok=false", wr, wr.write == nil)
	}
}

// Same defect after the pooled queue (which shares its backing arrays with the closed node's stale queue)
// has been handed to a new stream: the new stream's frame is visible through both nodes; whichever node is
// visited first delivers it and zeroes the slot, the other one then yields an empty request.
func TestVerifReproC12CloseStreamQueueReuse(t *testing.T) {
	ws := NewPriorityWriteScheduler(nil)
	ws.OpenStream(1, OpenStreamOptions{})
	ws.Push(makeWriteHeadersRequest(1))
	ws.CloseStream(1)
	ws.OpenStream(3, OpenStreamOptions{}) // gets the pooled queue
	ws.Push(makeWriteHeadersRequest(3))
	n, empty := 0, 0
	for i := 0; i < 8; i++ {
		wr, ok := ws.Pop()
		if !ok {
			break
		}
		if wr.write == nil {
			empty++
		} else if wr.StreamID() == 3 {
			n++
		}
	}
	if n != 1 || empty != 0 {
		t.Errorf("one frame pushed on stream 3: it came out %d times, plus %d empty requests; want 1 and 0", n, empty)
	}
}
