package http2

import "testing"

// Reproduction of the C12 finding "C12-rfc7540-idle-open-evicted" (overlay into /repo/http2, see run.sh):
// AdjustStream on a not-yet-opened stream creates an idle node and records it in ws.idleNodes. OpenStream
// turns that node into an open one but leaves it in ws.idleNodes, so when MaxIdleNodesInTree further idle
// nodes are created (PRIORITY frames for other idle streams) the *open* stream's node is evicted by
// addClosedOrIdleNode/removeNode: its queued frames are lost, Push(DATA) panics with "add DATA on non-open
// stream" and CloseStream panics with "unknown stream".
func testVerifReproC12IdleOpen(t *testing.T, maxIdle int) {
	ws := NewPriorityWriteScheduler(&PriorityWriteSchedulerConfig{MaxClosedNodesInTree: 10, MaxIdleNodesInTree: maxIdle})
	ws.AdjustStream(1, PriorityParam{StreamDep: 0, Weight: 15}) // PRIORITY on idle stream 1
	ws.OpenStream(1, OpenStreamOptions{})                       // HEADERS open stream 1
	st := &stream{id: 1, sc: &serverConn{maxFrameSize: 16384}}
	st.flow.n = 100
	ws.Push(FrameWriteRequest{write: &writeData{streamID: 1, p: []byte("ab")}, stream: st})
	for i := 0; i < maxIdle; i++ { // PRIORITY frames on further idle streams
		ws.AdjustStream(uint32(3+2*i), PriorityParam{StreamDep: 0, Weight: 15})
	}
	wr, ok := ws.Pop()
	if !ok || wr.DataSize() != 2 {
		t.Errorf("DATA queued on open stream 1 is lost: Pop = %v, %v", wr, ok)
	}
	func() {
		defer func() {
			if p := recover(); p != nil {
				t.Errorf("Push(DATA) on open stream 1 panicked: %v", p)
			}
		}()
		ws.Push(FrameWriteRequest{write: &writeData{streamID: 1, p: []byte("cd")}, stream: st})
	}()
	func() {
		defer func() {
			if p := recover(); p != nil {
				t.Errorf("CloseStream(1) of an open stream panicked: %v", p)
			}
		}()
		ws.CloseStream(1)
	}()
}

func TestVerifReproC12IdleOpenEvicted1(t *testing.T)  { testVerifReproC12IdleOpen(t, 1) }
func TestVerifReproC12IdleOpenEvicted10(t *testing.T) { testVerifReproC12IdleOpen(t, 10) } // the default size
