package quic

import "testing"

// Reproductions of the C28 findings (overlay into /repo/quic to run, e.g.
//   go test -overlay <json mapping /repo/quic/zz_repro_c28_test.go to this file> -run TestVerifReproC28 ./quic).
// Both frames are malformed according to RFC 9000 and must yield FRAME_ENCODING_ERROR (n == -1 from the
// consume function, which Conn.handleFrames turns into errFrameEncoding); the parsers accept them.

// RFC 9000 §19.14: STREAMS_BLOCKED "Maximum Streams ... cannot exceed 2^60 ... Receipt of a frame that encodes a
// larger stream ID MUST be treated as a connection error of type STREAM_LIMIT_ERROR or FRAME_ENCODING_ERROR."
// consumeMaxStreamsFrame has the check, consumeStreamsBlockedFrame does not.
func TestVerifReproC28StreamsBlockedLimit(t *testing.T) {
	frame := []byte{frameTypeStreamsBlockedBidi, 0xd0, 0, 0, 0, 0, 0, 0, 1} // 2^60+1
	_, max, n := consumeStreamsBlockedFrame(frame)
	if n != -1 {
		t.Errorf("STREAMS_BLOCKED with Maximum Streams %d (> 2^60) accepted, n=%d; want -1", max, n)
	}
	frame[0] = frameTypeMaxStreamsBidi
	if _, _, n := consumeMaxStreamsFrame(frame); n != -1 {
		t.Errorf("MAX_STREAMS control: n=%d, want -1", n)
	}
}

// RFC 9000 §19.15: NEW_CONNECTION_ID "Length: An 8-bit unsigned integer ... Values less than 1 and greater than 20
// are invalid and MUST be treated as a connection error of type FRAME_ENCODING_ERROR."
// consumeNewConnectionIDFrame reads the field with quicwire.ConsumeVarintBytes, so the invalid Length 0x40 (64)
// followed by 0x01 is taken as the 2-byte varint 1 and the frame is accepted with a 1-byte connection ID.
func TestVerifReproC28NewConnectionIDLength(t *testing.T) {
	frame := []byte{frameTypeNewConnectionID, 0x01, 0x00, 0x40, 0x01, 0xaa}
	frame = append(frame, make([]byte, 16)...)
	_, _, cid, _, n := consumeNewConnectionIDFrame(frame)
	if n != -1 {
		t.Errorf("NEW_CONNECTION_ID with Length byte 0x40 accepted: n=%d connID=%x; want -1", n, cid)
	}
}

// updatingKeyPair.unprotect uses maxPacketNumber as the "nothing received in the next phase yet" sentinel and
// compares with `pnum < k.minReceived`: a current-phase packet numbered exactly 2^62-1 (a legal packet number,
// RFC 9000 §12.3) that arrives while a locally initiated key update is pending is opened with the NEXT phase key
// and dropped. (Practically unreachable: needs 2^62 packets. `<=` or a separate flag would repair it.)
func TestVerifReproC28KeyUpdateSentinel(t *testing.T) {
	var k updatingKeyPair
	secret := make([]byte, 32)
	k.init()
	k.r.init(0x1301, secret) // tls.TLS_AES_128_GCM_SHA256
	k.w.init(0x1301, secret) // loopback: read keys = write keys
	k.updateAfter = 0        // this packet starts a key update right after being protected
	pnum := packetNumber(maxPacketNumber)
	var w packetWriter
	w.reset(1200)
	w.start1RTTPacket(pnum, pnum-1, nil)
	w.appendPingFrame()
	if w.finish1RTTPacket(pnum, pnum-1, nil, &k) == nil {
		t.Fatal("no packet")
	}
	if !k.updating {
		t.Fatal("expected a pending key update")
	}
	if _, err := parse1RTTPacket(append([]byte(nil), w.datagram()...), &k, 0, pnum-1); err != nil {
		t.Errorf("current-phase packet %d rejected while a key update is pending: %v", pnum, err)
	}
}
