package dnsmessage_test

import (
	"testing"

	"golang.org/x/net/dns/dnsmessage"
)

// Public-API reproduction of known finding C36-pointer-chain-depth (run with: sh repro/run.sh C36 dns/dnsmessage).
// Twelve records whose owner names extend one another by one label (a., b.a., c.b.a., ...) pack into a chain of
// eleven compression pointers; the package's own Unpack rejects its own Pack output ("too many pointers (>10)").
func TestVerifReproC36PointerChainDepth(t *testing.T) {
	for n := 11; n <= 13; n++ {
		var m dnsmessage.Message
		name := ""
		for i := 0; i < n; i++ {
			name = string(rune('a'+i)) + "." + name
			m.Answers = append(m.Answers, dnsmessage.Resource{
				Header: dnsmessage.ResourceHeader{Name: dnsmessage.MustNewName(name), Type: dnsmessage.TypeA, Class: dnsmessage.ClassINET},
				Body:   &dnsmessage.AResource{},
			})
		}
		b, err := m.Pack()
		if err != nil {
			t.Fatal(err)
		}
		var m2 dnsmessage.Message
		if err := m2.Unpack(b); err != nil {
			t.Errorf("n=%d: Unpack(Pack(m)): %v", n, err)
		}
	}
}
