package quic

import (
	"testing"
	"testing/synctest"
)

// Public-API-level reproduction of the C25 known finding C25-skipped-number-cleaned (overlay into /repo/quic to run;
// it FAILS on the pinned tree, which is the finding).
//
// Same scenario as the repository's own TestSkipAckForSkippedPacket, except that the peer acknowledges every packet
// including the most recent one. The acknowledgement of packet n-1 makes sentPacketList.clean() drop the Unsent
// placeholder of the skipped number n together with it, so a later ACK frame covering n is clamped to the list
// start by lossState.receiveAckRange and is accepted instead of closing the connection with PROTOCOL_VIOLATION.
func TestVerifReproC25SkippedAckAfterClean(t *testing.T) {
	synctest.Test(t, testVerifReproC25SkippedAckAfterClean)
}

func testVerifReproC25SkippedAckAfterClean(t *testing.T) {
	tc, s := newTestConnAndLocalStream(t, serverSide, uniStream, permissiveTransportParameters)
	for {
		last := tc.lastPacket
		s.WriteByte(0)
		s.Flush()
		tc.wantFrameType("conn sends STREAM data",
			packetType1RTT, debugFrameStream{})
		if tc.lastPacket.num > 1024 {
			t.Fatalf("no numbers skipped after 1024 packets")
		}
		if last != nil && tc.lastPacket.num == last.num+2 {
			// The connection skipped last.num+1. Everything up to last.num was acknowledged in the previous
			// iteration, so the placeholder for the skipped number is already gone.
			break
		}
		// Acknowledge everything up to and including the packet just received (an honest, cumulative ACK).
		tc.writeFrames(tc.lastPacket.ptype, debugFrameAck{
			ranges: []i64range[packetNumber]{{0, tc.lastPacket.num + 1}},
		})
		tc.wantIdle("conn is idle after an honest ACK")
	}
	// Acknowledge the skipped packet number (and the packet after it).
	tc.writeFrames(tc.lastPacket.ptype, debugFrameAck{
		ranges: []i64range[packetNumber]{{0, tc.lastPacket.num + 1}},
	})
	tc.wantFrame("ACK for skipped packet causes CONNECTION_CLOSE",
		packetType1RTT, debugFrameConnectionCloseTransport{
			code: errProtocolViolation,
		})
}
