package httpsfv

import "testing"

// Reproductions of the C56 known findings (sh repro/run.sh C56 internal/httpsfv). Every subtest FAILS on the unchanged
// tree. httpsfv is an internal package, so the test is in-package; it only uses the exported Parse* functions.
func TestVerifReproC56(t *testing.T) {
	reject := func(name string, ok bool, why string) {
		t.Run(name, func(t *testing.T) {
			if ok {
				t.Errorf("accepted; RFC 9651 %s", why)
			}
		})
	}
	// C56-dict-missing-comma
	n := 0
	ok := ParseDictionary("u=1 i", func(k, v, p string) { n++ })
	reject("dict-missing-comma/u=1 i", ok, "4.2.2 step 8: next character after a member must be ','")
	reject("dict-missing-comma/a b", ParseDictionary("a b", nil), "4.2.2 step 8")
	// C56-htab-as-sp
	reject("htab-as-sp/inner-list", ParseBareInnerList("(\ta)", nil), "4.2.1.2 step 3.1 discards SP only; HTAB is not a bare item")
	reject("htab-as-sp/parameters", ParseParameter(";\ta", nil), "4.2.3.2 step 2.3 discards SP only; HTAB does not start a key")
	reject("htab-as-sp/item", ParseItem("a;\tb", nil), "4.2.3.2 step 2.3")
	// C56-innerlist-unclosed
	reject("innerlist-unclosed/bare", ParseBareInnerList("(", nil), "4.2.1.2 step 4: end of inner list not found")
	reject("innerlist-unclosed/list", ParseList("a, (", nil), "4.2.1.2 step 4")
	reject("innerlist-unclosed/dict", ParseDictionary("a=(", nil), "4.2.1.2 step 4")
	// C56-display-fffd
	t.Run("display-fffd", func(t *testing.T) {
		got, ok := ParseDisplayString(`%"%ef%bf%bd"`)
		if !ok || got != "�" {
			t.Errorf("ParseDisplayString(%%\"%%ef%%bf%%bd\") = %q, %v; RFC 9651 4.2.10: valid UTF-8 for U+FFFD", got, ok)
		}
	})
}
