package http3

import (
	"encoding/binary"
	"testing"
)

// Reproduction of the C33 finding C33-peer-sized-alloc (overlay into /repo/internal/http3 to run, e.g.
//
//	go test -overlay <json mapping /repo/internal/http3/zz_repro_c33_test.go to this file> -run TestVerifReproC33 ./internal/http3).
//
// A peer sends 20 bytes on a request stream: a HEADERS frame header declaring a 2^61-byte frame and a QPACK
// literal field line whose name length is 2^49+5. qpackDecoder.decode (called by serverConn.parseHeader and
// clientConn's response reader without any recover) checks the size only against the declared frame length and
// then calls make([]byte, size): "panic: runtime error: makeslice: len out of range".
func TestVerifReproC33StringAlloc(t *testing.T) {
	{
		st1, st2 := newStreamPair(t)
		data := []byte{byte(frameTypeHeaders)}
		data = binary.BigEndian.AppendUint64(data, 1<<61|3<<62) // frame length 2^61 as an 8-byte varint
		data = append(data, 0x00, 0x00, 0x27)                   // section prefix; literal name, length continues
		data = binary.AppendUvarint(data, 1<<49+5-7)            // name length 2^49+5
		st1.Write(data)
		st1.Flush()
		if ftype, err := st2.readFrameHeader(); err != nil || ftype != frameTypeHeaders {
			t.Fatalf("readFrameHeader = %v, %v", ftype, err)
		}
		defer func() {
			if p := recover(); p != nil {
				t.Fatalf("decode panicked: %v (want an error)", p)
			}
		}()
		var dec qpackDecoder
		err := dec.decode(st2, func(indexType, string, string) error { return nil })
		if err == nil {
			t.Fatalf("decode accepted an oversized string")
		}
	}
}
