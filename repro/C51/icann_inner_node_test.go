package publicsuffix_test

import (
	"testing"

	"golang.org/x/net/publicsuffix"
)

// Public-API reproduction of the C51 finding (copy into a scratch copy of /repo/publicsuffix or use go test -overlay).
// The ICANN flag returned by PublicSuffix is not the flag of the prevailing rule when the lookup walks through an
// inner ("parent only") node of the packed rule tree that lies beyond the prevailing rule: such nodes carry
// ICANN=true in the shipped table and PublicSuffix copies that bit (`icann = icannNode`) although the node does not
// change the suffix. The package's own reference in list_test.go (slowPublicSuffix) returns false in all these cases.
func TestVerifReproC51ICANNFlagInnerNode(t *testing.T) {
	for _, tc := range []struct {
		domain, suffix string
		icann          bool
	}{
		// no rule "za" exists (only ac.za, co.za, ...): the prevailing rule is the default "*", which is not ICANN
		{"za", "za", false},
		{"example.za", "za", false},
		// "ruhr-uni-bochum.de" is a PRIVATE rule; "noc" below it is only the parent of the rule "io.noc.ruhr-uni-bochum.de"
		{"noc.ruhr-uni-bochum.de", "ruhr-uni-bochum.de", false},
		{"jelastic.vps-host.net", "vps-host.net", false},
		{"dualstack.us-east-1.amazonaws.com", "us-east-1.amazonaws.com", false},
		// control: same shape, no inner node involved
		{"example.ruhr-uni-bochum.de", "ruhr-uni-bochum.de", false},
		{"ck", "ck", false},
	} {
		got, icann := publicsuffix.PublicSuffix(tc.domain)
		if got != tc.suffix || icann != tc.icann {
			t.Errorf("PublicSuffix(%q) = %q, icann=%v; want %q, icann=%v", tc.domain, got, icann, tc.suffix, tc.icann)
		}
	}
}
