#!/bin/sh
# usage: sh run.sh [repo]   — runs the reproductions against /repo (or $1) through an overlay, nothing is written there
D=$(cd "$(dirname "$0")" && pwd)
R=${1:-/repo}
O=$(mktemp)
{
 printf '{"Replace":{'
 sep=""
 for f in "$D"/*_test.go; do printf '%s"%s/http2/zz_%s":"%s"' "$sep" "$R" "$(basename "$f")" "$f"; sep=","; done
 printf '}}'
} > "$O"
cd "$R" && env -u GOFLAGS GOPROXY=off go test -vet=off -count=1 -overlay "$O" -run 'TestVerifReproC13' ./http2/
rc=$?
rm -f "$O"
exit $rc
