package http2

import "testing"

// Reproduction of the C13 finding "C13-rfc9218-toggle-parity" (overlay into /repo/http2, see run.sh):
// priorityWriteSchedulerRFC9218.Pop flips the single flag prioritizeIncremental on every call that gets past the
// control queue — also when that call returns nothing (all windows closed) or serves a stream of another
// urgency. The documented 50/50 split between the incremental streams and the first non-incremental stream of
// one urgency therefore only holds for back-to-back productive Pops. With exactly one other Pop in between
// (the natural rhythm when the peer refills the flow-control window one frame at a time: Pop -> frame,
// Pop -> nothing, WINDOW_UPDATE, Pop -> frame, ...) the same class wins every time and the other class of the
// same urgency is starved for as long as the favoured stream has data.
func TestVerifReproC13ToggleParityStarvation(t *testing.T) {
	ws := newPriorityWriteSchedulerRFC9218()
	sc := &serverConn{maxFrameSize: 16384}
	conn := &outflow{n: 0}
	mk := func(id uint32) *stream {
		st := &stream{id: id, sc: sc}
		st.flow.n = 1 << 20
		st.flow.conn = conn
		return st
	}
	a, b := mk(1), mk(3)
	ws.OpenStream(1, OpenStreamOptions{priority: PriorityParam{urgency: 3, incremental: 0}})
	ws.OpenStream(3, OpenStreamOptions{priority: PriorityParam{urgency: 3, incremental: 1}})
	const rounds = 20
	for i := 0; i < rounds; i++ {
		ws.Push(FrameWriteRequest{write: &writeData{streamID: 1, p: make([]byte, 100)}, stream: a})
		ws.Push(FrameWriteRequest{write: &writeData{streamID: 3, p: make([]byte, 100)}, stream: b})
	}
	served := map[uint32]int{}
	for i := 0; i < rounds; i++ {
		conn.n = 100 // WINDOW_UPDATE: room for exactly one frame
		wr, ok := ws.Pop()
		if !ok {
			t.Fatalf("round %d: nothing popped", i)
		}
		served[wr.StreamID()]++
		if _, ok := ws.Pop(); ok { // the server asks again after the write; the connection window is empty
			t.Fatalf("round %d: popped with an empty connection window", i)
		}
	}
	if served[1] == 0 || served[3] == 0 {
		t.Errorf("both streams have urgency 3 and were sendable at each of %d Pops: non-incremental stream 1 served %d times, incremental stream 3 served %d times; want about half each",
			rounds, served[1], served[3])
	}
}

// Same with a stream of a smaller urgency value that is sendable at every second Pop.
func TestVerifReproC13ToggleParityOtherUrgency(t *testing.T) {
	ws := newPriorityWriteSchedulerRFC9218()
	sc := &serverConn{maxFrameSize: 16384}
	mk := func(id uint32) *stream {
		st := &stream{id: id, sc: sc}
		st.flow.n = 1 << 20
		return st
	}
	x, a, b := mk(1), mk(3), mk(5)
	ws.OpenStream(1, OpenStreamOptions{priority: PriorityParam{urgency: 1, incremental: 1}})
	ws.OpenStream(3, OpenStreamOptions{priority: PriorityParam{urgency: 3, incremental: 0}})
	ws.OpenStream(5, OpenStreamOptions{priority: PriorityParam{urgency: 3, incremental: 1}})
	const rounds = 20
	for i := 0; i < rounds; i++ {
		ws.Push(FrameWriteRequest{write: &writeData{streamID: 3, p: make([]byte, 10)}, stream: a})
		ws.Push(FrameWriteRequest{write: &writeData{streamID: 5, p: make([]byte, 10)}, stream: b})
	}
	served := map[uint32]int{}
	for i := 0; i < rounds; i++ {
		ws.Push(FrameWriteRequest{write: &writeData{streamID: 1, p: make([]byte, 10)}, stream: x}) // urgent stream produces one frame
		for j := 0; j < 2; j++ {
			wr, ok := ws.Pop()
			if !ok {
				t.Fatalf("round %d: nothing popped", i)
			}
			served[wr.StreamID()]++
		}
	}
	if served[3] == 0 || served[5] == 0 {
		t.Errorf("streams 3 and 5 have urgency 3 and were sendable throughout: stream 1 (u=1) served %d, non-incremental 3 served %d, incremental 5 served %d times",
			served[1], served[3], served[5])
	}
}
