package quic

import (
	"testing"
	"testing/synctest"
)

// Reproduction of the C19 finding (key C19-fin-marked-sent-on-truncated-frame) through a real Conn, using the
// package's own test harness (overlay this file into /repo/quic to run:
//   go test -overlay <json mapping /repo/quic/zz_repro_c19_test.go to this file> -run TestVerifReproC19 ./quic).
//
// Stream.appendOutFramesLocked computes fin := outclosed.isSet() && off+size == out.end *before*
// packetWriter.appendStreamFrame truncates the data to the room left in the packet (dropping the FIN bit), and then
// still executes outclosed.setSent(pnum). A PTO probe for a closed stream with more than one packet of unacknowledged
// data therefore records the FIN as "sent in the probe packet". If the packet that really carried the FIN is lost,
// its loss no longer matches outclosed's packet number, the FIN is not rescheduled, and once all data is acknowledged
// nothing is in flight any more: the FIN is never retransmitted, the peer never reads io.EOF and Close blocks.
func TestVerifReproC19FinNeverRetransmitted(t *testing.T) {
	synctest.Test(t, func(t *testing.T) {
		tc, s := newTestConnAndLocalStream(t, serverSide, uniStream, permissiveTransportParameters)
		tc.ignoreFrame(frameTypeAck)
		tc.ignoreFrame(frameTypePing)
		tc.ignoreFrame(frameTypePadding)

		const size = 3000 // more than one packet
		s.Write(make([]byte, size))
		s.Flush()
		var sent int64
		for sent < size {
			p := tc.readPacket()
			if p == nil {
				t.Fatalf("conn stopped sending after %v bytes", sent)
			}
			for _, f := range p.frames {
				if sf, ok := f.(debugFrameStream); ok {
					sent = max(sent, sf.off+int64(len(sf.data)))
				}
			}
		}

		s.CloseWrite()
		tc.wantFrame("FIN in its own packet",
			packetType1RTT, debugFrameStream{id: s.id, off: size, fin: true, data: []byte{}})
		finPacket := tc.lastPacket.num

		// Nothing is acknowledged; the PTO timer fires and the conn sends probes that resend the beginning of
		// the stream, truncated to one packet.
		tc.triggerLossOrPTO(packetType1RTT, true)
		probes := 0
		for {
			p := tc.readPacket()
			if p == nil {
				break
			}
			probes++
			for _, f := range p.frames {
				if sf, ok := f.(debugFrameStream); ok && sf.fin {
					t.Fatalf("probe unexpectedly carries the FIN: %v", sf)
				}
			}
		}
		if probes == 0 {
			t.Fatalf("no PTO probe was sent")
		}
		last := tc.lastPacket.num

		// The peer received everything except the packet with the FIN. That packet is older than the largest
		// acknowledged one by more than the time threshold, so the ack makes the conn declare it lost at once.
		tc.writeFrames(packetType1RTT, debugFrameAck{
			ranges: []i64range[packetNumber]{{0, finPacket}, {finPacket + 1, last + 1}},
		})

		tc.wantFrame("the lost FIN is retransmitted",
			packetType1RTT, debugFrameStream{id: s.id, off: size, fin: true, data: []byte{}})
	})
}
