package webdav_test

// Public-API reproductions of the C44 known findings: the same calls on webdav.NewMemFS() and on a webdav.Dir over a
// fresh temporary directory disagree on success/failure (or memFS panics). Each test FAILS on the unchanged tree.
// Run (nothing is written into /repo):
//   cd /repo && go test -overlay <(printf '{"Replace":{"/repo/webdav/zz_c44_repro_test.go":"%s"}}' $VERIF_DIR/repro/C44/memfs_vs_native_test.go) \
//       -run TestVerifReproC44 ./webdav/
// or copy the file into a scratch copy of /repo/webdav.

import (
	"context"
	"io"
	"os"
	"testing"

	"golang.org/x/net/webdav"
)

func c44both(t *testing.T) (mem, native webdav.FileSystem) {
	return webdav.NewMemFS(), webdav.Dir(t.TempDir())
}

// C44-far-seek-write-panics
func TestVerifReproC44FarSeekWrite(t *testing.T) {
	ctx := context.Background()
	for name, fs := range map[string]webdav.FileSystem{"native": webdav.Dir(t.TempDir()), "memFS": webdav.NewMemFS()} {
		f, err := fs.OpenFile(ctx, "/f", os.O_RDWR|os.O_CREATE, 0666)
		if err != nil {
			t.Fatal(err)
		}
		if _, err := f.Seek(1<<49, io.SeekStart); err != nil {
			t.Logf("%s: Seek: %v", name, err)
			continue
		}
		func() {
			defer func() {
				if p := recover(); p != nil {
					t.Errorf("%s: Write after Seek(1<<49) panicked: %v", name, p)
				}
			}()
			n, err := f.Write([]byte{1})
			t.Logf("%s: Write after Seek(1<<49) = %d, %v", name, n, err)
		}()
		f.Close()
	}
}

// C44-rename-same-name
func TestVerifReproC44RenameSameName(t *testing.T) {
	ctx := context.Background()
	mem, native := c44both(t)
	if err := mem.Rename(ctx, "/", "/"); err == nil {
		t.Errorf("memFS: Rename(/, /) succeeded; renaming the root must fail (native: %v)", native.Rename(ctx, "/", "/"))
	}
	em, en := mem.Rename(ctx, "/missing", "/missing"), native.Rename(ctx, "/missing", "/missing")
	if (em == nil) != (en == nil) {
		t.Errorf("Rename(/missing, /missing): memFS %v, native %v", em, en)
	}
}

// C44-open-dir-for-writing
func TestVerifReproC44OpenDirForWriting(t *testing.T) {
	ctx := context.Background()
	mem, native := c44both(t)
	for _, fs := range []webdav.FileSystem{mem, native} {
		if err := fs.Mkdir(ctx, "/d", 0777); err != nil {
			t.Fatal(err)
		}
	}
	_, em := mem.OpenFile(ctx, "/d", os.O_RDWR, 0)
	_, en := native.OpenFile(ctx, "/d", os.O_RDWR, 0)
	if (em == nil) != (en == nil) {
		t.Errorf("OpenFile(/d, O_RDWR) on a directory: memFS %v, native %v", em, en)
	}
}

// C44-removeall-missing-parent
func TestVerifReproC44RemoveAllMissingParent(t *testing.T) {
	ctx := context.Background()
	mem, native := c44both(t)
	em, en := mem.RemoveAll(ctx, "/x/y"), native.RemoveAll(ctx, "/x/y")
	if (em == nil) != (en == nil) {
		t.Errorf("RemoveAll(/x/y) with /x missing: memFS %v, native %v", em, en)
	}
}

// C44-readdir-all-after-partial
func TestVerifReproC44ReaddirAfterPartial(t *testing.T) {
	ctx := context.Background()
	mem, native := c44both(t)
	var got [2]int
	for i, fs := range []webdav.FileSystem{mem, native} {
		for _, n := range []string{"/d", "/d/x", "/d/y", "/d/z"} {
			if err := fs.Mkdir(ctx, n, 0777); err != nil {
				t.Fatal(err)
			}
		}
		d, err := fs.OpenFile(ctx, "/d", os.O_RDONLY, 0)
		if err != nil {
			t.Fatal(err)
		}
		if fis, err := d.Readdir(1); len(fis) != 1 || err != nil {
			t.Fatalf("Readdir(1) = %d entries, %v", len(fis), err)
		}
		rest, err := d.Readdir(-1)
		if err != nil {
			t.Fatal(err)
		}
		got[i] = len(rest)
		d.Close()
	}
	if got[0] != got[1] {
		t.Errorf("Readdir(1) then Readdir(-1) on a directory with 3 entries: memFS returns %d more entries, native %d", got[0], got[1])
	}
}
