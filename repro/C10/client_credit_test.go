//go:build !(go1.27 && !http2legacy)

package http2_test

// Public-API reproductions of the three client-side C10 findings (overlay into /repo/http2 to run:
// sh repro/run.sh C10 http2). All tests state the property ("once all bodies are read or closed the peer's view of
// the connection receive window is back to its configured size", up to the < 4096 bytes inflow.add batches) and
// therefore FAIL on the unchanged tree.

import (
	"net/http"
	"testing"
	"testing/synctest"

	. "golang.org/x/net/http2"
)

// verifC10PeerWindow drains the frames the client wrote and returns the sum of connection-level WINDOW_UPDATEs.
func verifC10ConnUpdates(tc *testClientConn) int64 {
	var sum int64
	for {
		synctest.Wait()
		f := tc.readFrame()
		if f == nil {
			return sum
		}
		if wu, ok := f.(*WindowUpdateFrame); ok && wu.StreamID == 0 {
			sum += int64(wu.Increment)
		}
	}
}

func verifC10State(tc *testClientConn) (avail, unsent int64) {
	a, u := tc.cc.VerifReproC10Inflow() // client_credit_export_test.go
	return int64(a), int64(u)
}

// Finding C10-client-read-past-content-length: the server sends more DATA than the Content-Length it declared; the
// application reads (gets the truncation error) and closes the body. The 8192 bytes Read took out of the pipe are never
// credited back: no WINDOW_UPDATE(0) and nothing batched.
func TestVerifReproC10ClientReadPastContentLength(t *testing.T) {
	synctestTest(t, func(t testing.TB) {
		tc := newTestClientConn(t)
		tc.greet()
		req, _ := http.NewRequest("GET", "https://dummy.tld/", nil)
		rt := tc.roundTrip(req)
		tc.wantFrameType(FrameHeaders)
		tc.writeHeaders(HeadersFrameParam{
			StreamID:   rt.streamID(),
			EndHeaders: true,
			BlockFragment: tc.makeHeaderBlockFragment(
				":status", "200",
				"content-length", "1",
			),
		})
		verifC10ConnUpdates(tc)
		configured, _ := verifC10State(tc)
		const sent = 8192
		tc.writeData(rt.streamID(), false, make([]byte, sent))
		synctest.Wait()
		res := rt.response()
		n, err := res.Body.Read(make([]byte, 16384))
		t.Logf("Read = %d, %v", n, err)
		res.Body.Close()
		returned := verifC10ConnUpdates(tc)
		_, unsent := verifC10State(tc)
		peer := configured - sent + returned
		if peer+unsent != configured {
			t.Errorf("connection window leaked: configured %d, peer's view %d + batched %d (missing %d bytes)", configured, peer, unsent, configured-peer-unsent)
		}
	})
}

// Finding C10-client-data-protocol-error-no-refund: DATA arrives before the response HEADERS. The stream is reset with
// PROTOCOL_ERROR, the connection stays up, and the frame's 8192 flow-controlled bytes are neither taken from
// cc.inflow nor returned: the server's view of the connection window stays 8192 bytes short.
func TestVerifReproC10ClientDataBeforeHeaders(t *testing.T) {
	synctestTest(t, func(t testing.TB) {
		tc := newTestClientConn(t)
		tc.greet()
		req, _ := http.NewRequest("GET", "https://dummy.tld/", nil)
		rt := tc.roundTrip(req)
		tc.wantFrameType(FrameHeaders)
		verifC10ConnUpdates(tc)
		configured, _ := verifC10State(tc)
		const sent = 8192
		tc.writeData(rt.streamID(), false, make([]byte, sent))
		synctest.Wait()
		if err := rt.err(); err == nil {
			t.Fatalf("RoundTrip succeeded, want a protocol error")
		}
		returned := verifC10ConnUpdates(tc)
		avail, unsent := verifC10State(tc)
		peer := configured - sent + returned
		if tc.isClosed() {
			t.Fatalf("connection closed: nothing to leak")
		}
		if peer+unsent != configured {
			t.Errorf("connection window leaked: configured %d, peer's view %d + batched %d (missing %d bytes); client still enforces %d", configured, peer, unsent, configured-peer-unsent, avail)
		}
	})
}

// Finding C10-client-double-close-refunds-twice: the server sends 9000 bytes of body, the application does not read
// them and closes the response body twice (an explicit Close plus a deferred one; io.Closer implementations are
// expected to tolerate that, and every other part of Close is idempotent). The first Close returns the 9000 discarded
// bytes to the connection window, the second one returns the same 9000 bytes again (pipe.Len() still reports
// pipe.unread): the server is told it may send 9000 bytes more than the configured window.
func TestVerifReproC10ClientDoubleClose(t *testing.T) {
	synctestTest(t, func(t testing.TB) {
		tc := newTestClientConn(t)
		tc.greet()
		req, _ := http.NewRequest("GET", "https://dummy.tld/", nil)
		rt := tc.roundTrip(req)
		tc.wantFrameType(FrameHeaders)
		tc.writeHeaders(HeadersFrameParam{
			StreamID:      rt.streamID(),
			EndHeaders:    true,
			BlockFragment: tc.makeHeaderBlockFragment(":status", "200"),
		})
		verifC10ConnUpdates(tc)
		configured, _ := verifC10State(tc)
		const sent = 9000
		tc.writeData(rt.streamID(), false, make([]byte, sent))
		synctest.Wait()
		res := rt.response()
		res.Body.Close()
		returned := verifC10ConnUpdates(tc)
		if returned != sent {
			t.Fatalf("first Close returned %d bytes of connection credit, want %d", returned, sent)
		}
		res.Body.Close()
		returned += verifC10ConnUpdates(tc)
		_, unsent := verifC10State(tc)
		peer := configured - sent + returned
		if peer+unsent != configured {
			t.Errorf("connection window inflated: configured %d, peer's view %d + batched %d (%d bytes returned for %d bytes of DATA)", configured, peer, unsent, returned, sent)
		}
	})
}
