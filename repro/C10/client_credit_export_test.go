//go:build !(go1.27 && !http2legacy)

package http2

// Test-only accessor for repro/C10/client_credit_test.go (package http2_test).
func (cc *ClientConn) VerifReproC10Inflow() (avail, unsent int32) {
	cc.mu.Lock()
	defer cc.mu.Unlock()
	return cc.inflow.avail, cc.inflow.unsent
}
