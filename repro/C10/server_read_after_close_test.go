package http2_test

import (
	"io"
	"net/http"
	"strconv"
	"testing"

	. "golang.org/x/net/http2"
)

// Public-API-level reproduction of the C10 finding "C10-server-read-after-closestream" (overlay into /repo/http2 to
// run: go test -overlay <json mapping /repo/http2/zz_repro_c10_test.go to this file> -run TestVerifReproC10 ./http2).
//
// closeStream returns the unread bytes buffered in the request body pipe to the connection window
// (sendWindowUpdate(nil, p.Len())) and then closes the pipe with CloseWithError, which keeps the buffered bytes
// readable. When the handler reads them afterwards, noteBodyRead returns them a second time at connection level.
// The peer is told 2*N bytes of connection credit for N bytes of DATA it sent.
func TestVerifReproC10ServerReadAfterCloseStream(t *testing.T) { synctestTest(t, testVerifReproC10) }

func testVerifReproC10(t testing.TB) {
	const n = 8192
	goRead := make(chan struct{})
	readDone := make(chan int, 1)
	st := newServerTester(t, func(w http.ResponseWriter, r *http.Request) {
		<-goRead
		b, _ := io.ReadAll(r.Body) // stream was reset: returns the buffered bytes, then the stream error
		readDone <- len(b)
	})
	defer st.Close()
	st.greet()
	st.writeHeaders(HeadersFrameParam{
		StreamID:      1,
		BlockFragment: st.encodeHeader(":method", "POST", "content-length", strconv.Itoa(2*n)),
		EndStream:     false,
		EndHeaders:    true,
	})
	st.writeData(1, false, make([]byte, n))
	st.sync()
	st.writeRSTStream(1, ErrCodeCancel)
	st.sync()
	close(goRead)
	got := <-readDone
	st.sync()

	credit := 0
	for {
		f := st.readFrame()
		if f == nil {
			break
		}
		if wu, ok := f.(*WindowUpdateFrame); ok && wu.StreamID == 0 {
			credit += int(wu.Increment)
		}
	}
	t.Logf("handler read %d bytes after the reset; connection-level WINDOW_UPDATE credit returned: %d for %d DATA bytes", got, credit, n)
	if credit > n {
		t.Errorf("server returned %d bytes of connection flow-control credit for %d bytes of DATA (double refund of body bytes read after closeStream)", credit, n)
	}
	if consumed := st.sc.TestFlowControlConsumed(); consumed < 0 {
		t.Errorf("connection receive window is %d bytes ABOVE its configured size", -consumed)
	}
}
