package ipv4_test

// Reproduction for finding C60-ipv4-parse-stale-options (run: sh repro/run.sh C60 ipv4).
// (*ipv4.Header).Parse "parses b as an IPv4 header and stores the result in h", but when the header on the wire
// has no options (IHL == 5) it leaves h.Options as it was. A receive loop that keeps one Header and parses a
// packet with options followed by a packet without options ends with Len == 20 and the PREVIOUS packet's options
// still in h.Options; Marshal of that Header produces a 24-byte header with IHL 6 instead of the 20 bytes parsed.

import (
	"bytes"
	"net"
	"testing"

	"golang.org/x/net/ipv4"
)

func TestVerifReproC60ParseStaleOptions(t *testing.T) {
	mk := func(id int, opts []byte) []byte {
		h := &ipv4.Header{Version: ipv4.Version, Len: ipv4.HeaderLen + len(opts), TotalLen: ipv4.HeaderLen + len(opts), ID: id,
			TTL: 64, Protocol: 1, Src: net.IPv4(192, 0, 2, 1), Dst: net.IPv4(198, 51, 100, 7), Options: opts}
		b, err := h.Marshal()
		if err != nil {
			t.Fatal(err)
		}
		return b
	}
	withOpts := mk(1, []byte{0x94, 0x04, 0x00, 0x00}) // router alert
	plain := mk(2, nil)

	var h ipv4.Header
	if err := h.Parse(withOpts); err != nil {
		t.Fatal(err)
	}
	if err := h.Parse(plain); err != nil {
		t.Fatal(err)
	}
	fresh, err := ipv4.ParseHeader(plain)
	if err != nil {
		t.Fatal(err)
	}
	if len(fresh.Options) != 0 {
		t.Fatalf("fresh header has options %x", fresh.Options)
	}
	if len(h.Options) != 0 {
		t.Errorf("reused header: Len=%d but Options = %x (left over from the previous packet); want none", h.Len, h.Options)
	}
	b, err := h.Marshal()
	if err != nil {
		t.Fatal(err)
	}
	if !bytes.Equal(b, plain) {
		t.Errorf("re-marshal of the parsed header differs:\n got %x\nwant %x", b, plain)
	}
}
