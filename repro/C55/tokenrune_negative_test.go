package httpguts_test

import (
	"testing"

	"golang.org/x/net/http/httpguts"
)

// Public-API reproduction of known finding C55-tokenrune-negative (sh repro/run.sh C55 http/httpguts). FAILS on the
// unchanged tree: IsTokenRune only checks r < utf8.RuneSelf before indexing isTokenTable[byte(r)], so negative runes
// whose low byte is a tchar are reported as token runes. (Runes decoded from strings are never negative, so callers
// using strings.IndexFunc are unaffected; the function itself is exported.)
func TestVerifReproC55TokenRuneNegative(t *testing.T) {
	for _, r := range []rune{-223 /* low byte '!' */, -0x100 + 'a', -0x7fffff00 + '~'} {
		if httpguts.IsTokenRune(r) {
			t.Errorf("IsTokenRune(%d) = true (low byte %q)", r, byte(r))
		}
	}
}
