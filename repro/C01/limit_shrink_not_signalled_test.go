package hpack

import (
	"bytes"
	"testing"
)

// Reproduction of the second (benign) C01 finding (overlay into /repo/http2/hpack to run): the encoder shrinks its
// table through SetMaxDynamicTableSizeLimit, then grows it again before the next header block. RFC 7541 §4.2: the
// smallest size in the interval MUST be signalled. SetMaxDynamicTableSizeLimit does not record minSize, so only the
// final size is signalled: the encoder has dropped ("a","b"), the decoder keeps it. Fields still round-trip (the
// decoder's extra entries are older than anything the encoder refers to); only the lock-step of the tables is lost.
func TestVerifReproC01LimitShrinkNotSignalled(t *testing.T) {
	var buf bytes.Buffer
	e := NewEncoder(&buf)
	d := NewDecoder(4096, func(f HeaderField) {})
	e.WriteField(HeaderField{Name: "a", Value: "b"})
	d.Write(buf.Bytes())
	d.Close()
	buf.Reset()

	e.SetMaxDynamicTableSizeLimit(0)    // encoder table emptied
	e.SetMaxDynamicTableSizeLimit(4096) // and allowed to grow again
	e.SetMaxDynamicTableSize(4096)
	d.SetAllowedMaxDynamicTableSize(4096)

	e.WriteField(HeaderField{Name: "c", Value: "d"})
	t.Logf("block 2 = % x", buf.Bytes())
	if _, err := d.Write(buf.Bytes()); err != nil {
		t.Fatal(err)
	}
	d.Close()
	if ne, nd := e.dynTab.table.len(), d.dynTab.table.len(); ne != nd {
		t.Fatalf("encoder table has %d entries, decoder table has %d: the shrink to 0 was never signalled", ne, nd)
	}
}
