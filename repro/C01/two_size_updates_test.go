package hpack_test

import (
	"bytes"
	"testing"

	"golang.org/x/net/http2/hpack"
)

// Public-API reproduction of the C01 finding (overlay into /repo/http2/hpack to run):
// the peer's SETTINGS_HEADER_TABLE_SIZE changes twice between two header blocks (down, then up). RFC 7541 §4.2
// requires the encoder to signal the smallest size and then the final size, i.e. two dynamic table size updates at
// the start of the next block - and hpack.Encoder does exactly that. hpack.Decoder clears its "first field" flag
// after the first update and rejects the second one whenever its table is not empty.
func TestVerifReproC01TwoSizeUpdates(t *testing.T) {
	var buf bytes.Buffer
	var got []hpack.HeaderField
	e := hpack.NewEncoder(&buf)
	d := hpack.NewDecoder(4096, func(f hpack.HeaderField) { got = append(got, f) })

	// block 1: one indexed literal, both tables now hold ("a","b")
	if err := e.WriteField(hpack.HeaderField{Name: "a", Value: "b"}); err != nil {
		t.Fatal(err)
	}
	if _, err := d.Write(buf.Bytes()); err != nil {
		t.Fatal(err)
	}
	if err := d.Close(); err != nil {
		t.Fatal(err)
	}
	buf.Reset()

	// between the blocks the table size goes 4096 -> 100 -> 4096 (the 34-byte entry survives)
	e.SetMaxDynamicTableSize(100)
	e.SetMaxDynamicTableSize(4096)
	d.SetAllowedMaxDynamicTableSize(4096)

	// block 2
	got = nil
	if err := e.WriteField(hpack.HeaderField{Name: "c", Value: "d"}); err != nil {
		t.Fatal(err)
	}
	t.Logf("block 2 = % x", buf.Bytes())
	if _, err := d.Write(buf.Bytes()); err != nil {
		t.Fatalf("decoder rejects the encoder's block: %v", err)
	}
	if err := d.Close(); err != nil {
		t.Fatal(err)
	}
	if len(got) != 1 || got[0].Name != "c" || got[0].Value != "d" {
		t.Fatalf("decoded %v, want [c: d]", got)
	}
}
