package idna_test

import (
	"testing"
	"unicode"

	"golang.org/x/net/idna"
)

// Public-API reproduction of the C50 finding (copy into a scratch copy of /repo/idna, or run with
// go test -overlay): an "xn--" label whose Punycode payload decodes to only ASCII ("xn--abc-" decodes to "abc") is
// accepted by every profile when unicode.Version < 16 (go1.25.0 and go1.26.8 ship 15.0.0), because the rejection in
// Profile.process is guarded by `unicode16 &&`. "abc" and "xn--abc-" then denote the same name.
func TestVerifReproC50ASCIIOnlyALabel(t *testing.T) {
	t.Logf("unicode.Version = %s", unicode.Version)
	profiles := map[string]*idna.Profile{
		"Punycode": idna.Punycode, "Lookup": idna.Lookup, "Display": idna.Display,
		"Registration": idna.Registration, "New()": idna.New(),
	}
	for name, p := range profiles {
		for _, in := range []string{"xn--abc-", "xn--a-", "www.xn--example-.com"} {
			a, errA := p.ToASCII(in)
			u, errU := p.ToUnicode(in)
			if errA == nil || errU == nil {
				t.Errorf("%s: ToASCII(%q) = %q, %v; ToUnicode = %q, %v; want errors (ASCII-only A-label)", name, in, a, errA, u, errU)
			}
		}
	}
}
