package idna_test

import (
	"testing"

	"golang.org/x/net/idna"
)

// Public-API reproduction of the second C50 finding: the Punycode decoder accepts payloads that encode surrogate code
// points (U+D800..U+DFFF are not Unicode scalar values; RFC 3492 §6.2 code points must be valid for the caller) and
// silently turns them into U+FFFD, so decoding and encoding are not inverse on accepted input and, in the profiles
// that do not validate labels (Punycode, New()), several distinct accepted A-labels map to one name without an error.
// "xn--ib9b" encodes U+D800, "xn--jb9b" U+D801, "xn--zn7c" is the encoding of U+FFFD itself.
func TestVerifReproC50SurrogatePayload(t *testing.T) {
	for _, p := range []*idna.Profile{idna.Punycode, idna.New()} {
		for _, in := range []string{"xn--ib9b", "xn--jb9b"} {
			a, err := p.ToASCII(in)
			if err == nil && a != in {
				t.Errorf("%v: ToASCII(%q) = %q without error: an accepted A-label is rewritten to a different A-label", p, in, a)
			}
			u, err := p.ToUnicode(in)
			if err == nil {
				t.Errorf("%v: ToUnicode(%q) = %+q without error (payload encodes a surrogate)", p, in, u)
			}
		}
	}
}
