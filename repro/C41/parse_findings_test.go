package html_test

import (
	"bytes"
	"strings"
	"testing"

	"golang.org/x/net/html"
	"golang.org/x/net/html/atom"
)

// Public-API reproductions of the C41 findings (copy/overlay into /repo/html to run).

// Render rejects a tree that Parse produced: an svg/math-namespace element whose name is an HTML void element
// name keeps its children, and render1 tests voidElements[n.Data] without looking at the namespace.
func TestVerifReproC41RenderForeignVoid(t *testing.T) {
	for _, in := range []string{"<svg><input>x", "<table><math><input>x<p>"} {
		doc, err := html.Parse(strings.NewReader(in))
		if err != nil {
			t.Fatal(err)
		}
		var buf bytes.Buffer
		if err := html.Render(&buf, doc); err != nil {
			t.Errorf("Render(Parse(%q)): %v", in, err)
		}
	}
}

// ParseFragment with a <head> context element: inHeadIM pops the synthetic html root off the stack of open
// elements; later insertion modes then panic on the empty stack (recovered by parse() and returned as an error).
func TestVerifReproC41FragmentHeadContext(t *testing.T) {
	for _, in := range []string{"<frameset></frameset>", "</body><!--c-->"} {
		ctx := &html.Node{Type: html.ElementNode, Data: "head", DataAtom: atom.Head}
		if _, err := html.ParseFragment(strings.NewReader(in), ctx); err != nil {
			t.Errorf("ParseFragment(%q, <head>): %v", in, err)
		}
	}
}

// ParseFragment with an svg or math context element: "</html>" pops the synthetic html root in parseForeignContent
// (the end tag matches the root's name; the namespace is not checked), and the following text token makes inBodyIM
// dereference the top of the empty stack (recovered by parse() and returned as an error).
func TestVerifReproC41FragmentForeignEndHTML(t *testing.T) {
	for _, c := range []*html.Node{
		{Type: html.ElementNode, Data: "svg", DataAtom: atom.Svg, Namespace: "svg"},
		{Type: html.ElementNode, Data: "math", DataAtom: atom.Math, Namespace: "math"},
	} {
		if _, err := html.ParseFragment(strings.NewReader("</html>x"), c); err != nil {
			t.Errorf("ParseFragment(%q, <%s>): %v", "</html>x", c.Data, err)
		}
	}
}

// ParseFragment with a nil context (allowed by its documentation): the in-body rules for <input> and <select> read
// p.context.DataAtom without a nil check (fixed in /repo 88d32c3).
func TestVerifReproC41FragmentNilContext(t *testing.T) {
	for _, in := range []string{"<input>", "<select>", "<b><select>x<p>"} {
		if _, err := html.ParseFragment(strings.NewReader(in), nil); err != nil {
			t.Errorf("ParseFragment(%q, nil): %v", in, err)
		}
	}
}

// ParseFragment whose context is an svg-namespace element named "template" (a parsed tree can contain one):
// resetInsertionMode left p.im nil (fixed in /repo).
func TestVerifReproC41FragmentForeignTemplateContext(t *testing.T) {
	ctx := &html.Node{Type: html.ElementNode, Data: "template", DataAtom: atom.Template, Namespace: "svg"}
	for _, in := range []string{"", "<a><a>x<p>"} {
		if _, err := html.ParseFragment(strings.NewReader(in), ctx); err != nil {
			t.Errorf("ParseFragment(%q, svg:template): %v", in, err)
		}
	}
}
