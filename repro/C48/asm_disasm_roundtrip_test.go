package bpf_test

import (
	"testing"

	"golang.org/x/net/bpf"
)

// Public-API reproductions of the C48 known findings (overlay into /repo/bpf to run, see run.sh).
// Every subtest FAILS on the unchanged tree: each is one instance of a class where Assemble and Disassemble
// are not inverse.

func typedRoundTrip(t *testing.T, ins bpf.Instruction) {
	t.Helper()
	raw, err := ins.Assemble()
	if err != nil {
		t.Skipf("Assemble(%#v) rejected: %v", ins, err)
	}
	if back := raw.Disassemble(); back != ins {
		t.Errorf("Disassemble(Assemble(%#v)) = %#v (raw %#v)", ins, back, raw)
	}
}

func rawRoundTrip(t *testing.T, raw bpf.RawInstruction) {
	t.Helper()
	ins := raw.Disassemble()
	if _, isRaw := ins.(bpf.RawInstruction); isRaw {
		t.Skipf("%#v not decoded", raw)
	}
	re, err := ins.Assemble()
	if err != nil || re != raw {
		t.Errorf("Assemble(Disassemble(%#v) = %#v) = %#v, %v", raw, ins, re, err)
	}
}

func TestVerifReproC48(t *testing.T) {
	// C48-jump-canon
	t.Run("jump-canon/positive-test-SkipTrue0", func(t *testing.T) {
		typedRoundTrip(t, bpf.JumpIf{Cond: bpf.JumpEqual, Val: 7, SkipTrue: 0, SkipFalse: 3})
	})
	t.Run("jump-canon/negated-test-SkipFalse", func(t *testing.T) {
		typedRoundTrip(t, bpf.JumpIfX{Cond: bpf.JumpLessThan, SkipTrue: 1, SkipFalse: 2})
	})
	// C48-abs-extwindow
	t.Run("abs-extwindow/typed", func(t *testing.T) {
		typedRoundTrip(t, bpf.LoadAbsolute{Off: 0xfffff000, Size: 4})
	})
	t.Run("abs-extwindow/raw-halfword", func(t *testing.T) {
		rawRoundTrip(t, bpf.RawInstruction{Op: 0x28, K: 0xfffff004}) // ldh [-4092] -> LoadExtension{4} -> ld #type
	})
	t.Run("abs-extwindow/raw-becomes-len", func(t *testing.T) {
		rawRoundTrip(t, bpf.RawInstruction{Op: 0x20, K: 0xfffff001}) // -> LoadExtension{ExtLen} -> 0x80
	})
	// C48-enum-unvalidated
	t.Run("enum/aluop-0x80-is-neg", func(t *testing.T) {
		typedRoundTrip(t, bpf.ALUOpConstant{Op: 0x80, Val: 1})
	})
	t.Run("enum/aluop-1-is-jump-class", func(t *testing.T) {
		typedRoundTrip(t, bpf.ALUOpX{Op: 1})
	})
	t.Run("enum/extension-0x1000-is-ld-abs-0", func(t *testing.T) {
		typedRoundTrip(t, bpf.LoadExtension{Num: 0x1000})
	})
	// C48-dontcare
	t.Run("dontcare/jf-on-ld-imm", func(t *testing.T) {
		rawRoundTrip(t, bpf.RawInstruction{Op: 0x00, Jf: 1})
	})
	t.Run("dontcare/op-high-byte", func(t *testing.T) {
		rawRoundTrip(t, bpf.RawInstruction{Op: 0x0100})
	})
	t.Run("dontcare/k-on-tax", func(t *testing.T) {
		rawRoundTrip(t, bpf.RawInstruction{Op: 0x07, K: 5})
	})
	t.Run("dontcare/ja-x-bit", func(t *testing.T) {
		rawRoundTrip(t, bpf.RawInstruction{Op: 0x0d})
	})
	// C48-load-dest-width
	t.Run("load-dest/ldx-len-decoded-as-ld-len", func(t *testing.T) {
		rawRoundTrip(t, bpf.RawInstruction{Op: 0x81})
	})
	t.Run("load-dest/ldx-abs", func(t *testing.T) {
		rawRoundTrip(t, bpf.RawInstruction{Op: 0x21, K: 4})
	})
	t.Run("load-dest/msh-width4-regA", func(t *testing.T) {
		rawRoundTrip(t, bpf.RawInstruction{Op: 0xa0, K: 14})
	})
}
