#!/bin/sh
# usage: repro/run.sh <ID> <pkg dir rel. to /repo> [go test args]   — overlays repro/<ID>/*_test.go into the package (never writes /repo)
D=$(cd "$(dirname "$0")" && pwd)
id="$1"; pkg="$2"; shift 2
R="${VERIF_REPO:-/repo}"
O=$(mktemp /tmp/reproov.XXXXXX.json)
trap 'rm -f "$O"' EXIT
python3 - "$D/$id" "$R/$pkg" > "$O" <<'PY'
import sys, os, json
src, dst = sys.argv[1], sys.argv[2]
print(json.dumps({"Replace": {os.path.join(dst, "zz_repro_" + f): os.path.join(src, f) for f in os.listdir(src) if f.endswith("_test.go")}}))
PY
cd "$R" && env -u GOFLAGS GOPROXY=off timeout 300 go test -vet=off -count=1 -overlay "$O" -run 'TestVerifRepro' "$@" "./$pkg/"
