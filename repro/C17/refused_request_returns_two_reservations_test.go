//go:build !(go1.27 && !http2legacy)

package http2_test

// Public-API reproduction of finding C17-refused-request-returns-two-reservations (overlay into /repo/http2 to run:
// sh repro/run.sh C17 http2). The test states the property and therefore FAILS on the unchanged tree.
//
// clientStream.writeRequest returns the request's reservation (decrStreamReservationsLocked) BEFORE
// awaitOpenSlotForStreamLocked decides; when that refuses the request (errClientConnUnusable: non-strict connection at
// its limit, which needs the server to have lowered SETTINGS_MAX_CONCURRENT_STREAMS below the outstanding count),
// cleanupWriteRequest sees cs.ID == 0 and returns "the reservation" a second time. The second decrement takes away a
// reservation that belongs to somebody else, so the connection under-counts and offers itself for new requests
// although it is at its limit.

import (
	"net/http"
	"testing"

	. "golang.org/x/net/http2"
)

func TestVerifReproC17RefusedRequestReturnsTwoReservations(t *testing.T) {
	synctestTest(t, func(t testing.TB) {
		tc := newTestClientConn(t)
		tc.greet(Setting{SettingMaxConcurrentStreams, 3})
		cc := tc.cc

		// two holders reserve a slot each (what the connection pool / net/http do before RoundTrip)
		if !cc.ReserveNewRequest() || !cc.ReserveNewRequest() {
			t.Fatal("reservations below the limit refused")
		}
		// the server lowers its limit below the outstanding count
		tc.writeSettings(Setting{SettingMaxConcurrentStreams, 1})
		tc.wantFrameType(FrameSettings) // ack
		if got := cc.State().StreamsReserved; got != 2 {
			t.Fatalf("StreamsReserved = %d, want 2", got)
		}
		// the first holder uses its reservation: the connection is over its limit, the request is refused
		req, _ := http.NewRequest("GET", "https://dummy.tld/", nil)
		rt := tc.roundTrip(req)
		if !rt.done() || rt.err() == nil {
			t.Fatalf("request on a connection over its limit was not refused")
		}
		t.Logf("first holder's request: %v", rt.err())
		if fr := tc.readFrame(); fr != nil {
			t.Fatalf("unexpected frame %v", fr)
		}
		// the second holder still has its reservation: one slot in use, limit 1
		if got := cc.State().StreamsReserved; got != 1 {
			t.Errorf("StreamsReserved = %d after one of two holders gave up; want 1 (the other holder's reservation was dropped)", got)
		}
		if cc.CanTakeNewRequest() {
			t.Errorf("connection at its limit (1 outstanding reservation, MAX_CONCURRENT_STREAMS=1) offers itself for a new request")
		}
	})
}
