#!/bin/sh
# Runs the C06 reproductions against /repo (or $VERIF_REPO) through a go test overlay; /repo is not modified.
D=$(cd "$(dirname "$0")" && pwd)
R="${VERIF_REPO:-/repo}"
O=$(mktemp /tmp/c06overlay.XXXXXX.json)
trap 'rm -f "$O"' EXIT
printf '{"Replace":{"%s/http2/zz_c06_repro_test.go":"%s/framer_roundtrip_repro_test.go"}}' "$R" "$D" > "$O"
cd "$R" && env -u GOFLAGS GOPROXY=off go test -vet=off -count=1 -overlay "$O" -run 'TestVerifReproC06' ./http2
