package http2_test

// Public-API reproductions of the two C06 findings. Run with `sh run.sh` (next to this file): it overlays this
// file into /repo/http2 for `go test`; nothing is written into /repo.

import (
	"bytes"
	"testing"

	"golang.org/x/net/http2"
)

// WriteSettings (AllowIllegalWrites=false) accepts SETTINGS_INITIAL_WINDOW_SIZE = 2^31, which RFC 9113 §6.5.2
// forbids and which the same Framer's ReadFrame rejects with ConnectionError(FLOW_CONTROL_ERROR).
func TestVerifReproC06SettingsWindowTooBig(t *testing.T) {
	var buf bytes.Buffer
	fr := http2.NewFramer(&buf, &buf)
	if err := fr.WriteSettings(http2.Setting{ID: http2.SettingInitialWindowSize, Val: 1 << 31}); err != nil {
		t.Skipf("WriteSettings now rejects the value: %v", err)
	}
	if _, err := fr.ReadFrame(); err != nil {
		t.Fatalf("frame accepted by WriteSettings does not read back: %v", err)
	}
}

// WriteWindowUpdate (AllowIllegalWrites=false) accepts a stream id with the reserved bit set (every other Write
// method with a stream id argument returns errStreamID) and sends the bit; ReadFrame reports stream id 1.
func TestVerifReproC06WindowUpdateReservedBit(t *testing.T) {
	var buf bytes.Buffer
	fr := http2.NewFramer(&buf, &buf)
	const sid = 1<<31 | 1
	if err := fr.WriteWindowUpdate(sid, 1); err != nil {
		t.Skipf("WriteWindowUpdate now rejects the stream id: %v", err)
	}
	if buf.Bytes()[5]&0x80 != 0 {
		t.Errorf("reserved bit sent on the wire: % x", buf.Bytes())
	}
	f, err := fr.ReadFrame()
	if err != nil {
		t.Fatal(err)
	}
	if got := f.Header().StreamID; got != sid {
		t.Fatalf("stream id written %#x, read back %#x", uint32(sid), got)
	}
}
