package quic

import "testing"

// Public-API-level reproduction of the C24 finding (overlay into /repo/quic to run):
// sub of an empty range strictly inside a stored range split it into two adjacent ranges.
func TestVerifReproC24SubEmptyRange(t *testing.T) {
	var s rangeset[int64]
	s.add(0, 10)
	s.sub(5, 5)
	if s.numRanges() != 1 || !s.isrange(0, 10) {
		t.Fatalf("after sub(5,5): %v (want one range [0,10))", s)
	}
}
