package quic

import (
	"crypto/tls"
	"testing"
	"testing/synctest"
)

// Reproduction of a C27 violation that lies OUTSIDE the checked kernel (Conn.maybeSend's Initial padding).
// Overlay into /repo/quic to run; it FAILS on the pinned tree:
//   second client datagram: 200 bytes
//   server sent a 1200-byte datagram (total 3600, allowed 4200, limit now 600)
//   server sent a 1200-byte datagram (total 4800, allowed 4200, limit now 0)
//   server sent 4800 bytes to an unvalidated address after receiving 1400 (limit 4200)
// A client sends a 1200-byte Initial datagram and one more 200-byte datagram, then stays silent (lost or spoofed
// client). Until the address is validated the server may send at most 3*1400 = 4200 bytes. maybeSend bounds the
// packets it builds by lossState.maxSendSize() (what the C27 check proves), but afterwards pads a datagram that
// carries an ack-eliciting Initial packet to 1200 bytes on the datagram buffer
// (`for len(buf) < paddedInitialDatagramSize`) without consulting the anti-amplification limit, and
// lossState.packetSent clamps the overdraft to zero (`max(0, limit-size)`), hiding it.
// Candidate repair: do not send an ack-eliciting Initial (or do not pad) when maxSendSize() < paddedInitialDatagramSize.
func TestVerifReproC27InitialPaddingExceedsAmplificationLimit(t *testing.T) {
	synctest.Test(t, testVerifReproC27)
}

func testVerifReproC27(t *testing.T) {
	tc := newTestConn(t, serverSide)
	tc.writeFrames(packetTypeInitial,
		debugFrameCrypto{
			data: tc.cryptoDataIn[tls.QUICEncryptionLevelInitial],
		})
	// A second, small datagram from the same address (any datagram counts, see Conn.handleDatagram): the limit becomes
	// 3*(1200+small) and is no longer a multiple of the server's 1200-byte datagrams.
	small := &testDatagram{
		packets: []*testPacket{{
			ptype:     packetTypeInitial,
			num:       tc.peerNextPacketNum[initialSpace],
			frames:    []debugFrame{debugFramePing{}},
			version:   quicVersion1,
			dstConnID: tc.conn.connIDState.local[0].cid,
			srcConnID: tc.peerConnID,
		}},
		addr:       tc.conn.peerAddr,
		paddedSize: 200,
	}
	before := tc.conn.loss.antiAmplificationLimit
	tc.write(small)
	synctest.Wait()
	smallSize := (tc.conn.loss.antiAmplificationLimit - before) / 3
	t.Logf("second client datagram: %d bytes", smallSize)
	received := 1200 + smallSize
	sent := 0
	drain := func() {
		for {
			buf := tc.endpoint.read()
			if buf == nil {
				return
			}
			sent += len(buf)
			t.Logf("server sent a %d-byte datagram (total %d, allowed %d, limit now %d)", len(buf), sent, 3*received, tc.conn.loss.antiAmplificationLimit)
		}
	}
	drain()
	for i := 0; i < 6; i++ {
		select {
		case <-tc.conn.donec:
			t.Logf("conn is done: %v", tc.conn.lifetime.finalErr)
			i = 100
			continue
		default:
		}
		if tc.timeUntilEvent() == infiniteDuration {
			break
		}
		tc.advanceToTimer() // PTO: the server retransmits its flight
		drain()
	}
	if sent > 3*received {
		t.Fatalf("server sent %d bytes to an unvalidated address after receiving %d (limit %d)", sent, received, 3*received)
	}
}
