package quic

import (
	"crypto/tls"
	"testing"
	"testing/synctest"
)

// Second reproduction of known finding C27-initial-padding-overdraft, found by VerifC27_conn
// (replay repro/C27/initial_padding_overdraft.json: firstSize=1250, flight=HelloRetryRequest-like, three timer events).
// Overlay into /repo/quic to run; it FAILS on the pinned tree.
// ONE client datagram is enough: the client's Initial is padded to 1250 bytes instead of 1200 and the client then stays
// silent (lost or spoofed). The budget is 3750. The server sends its flight and PTO probes in 1200-byte datagrams;
// after three of them 150 bytes are left (>= minPacketSize, so sendLimit does not block), the next PTO probe builds
// an Initial packet within 150 bytes, and maybeSend pads the datagram to 1200: 4800 bytes sent, 3750 allowed.
func TestVerifReproC27SingleDatagram(t *testing.T) {
	synctest.Test(t, testVerifReproC27Single)
}

func testVerifReproC27Single(t *testing.T) {
	tc := newTestConn(t, serverSide)
	const size = 1250
	tc.write(&testDatagram{
		packets: []*testPacket{{
			ptype:     packetTypeInitial,
			num:       tc.peerNextPacketNum[initialSpace],
			frames:    []debugFrame{debugFrameCrypto{data: tc.cryptoDataIn[tls.QUICEncryptionLevelInitial]}},
			version:   quicVersion1,
			dstConnID: tc.conn.connIDState.local[0].cid,
			srcConnID: tc.peerConnID,
		}},
		addr:       tc.conn.peerAddr,
		paddedSize: size,
	})
	synctest.Wait()
	received, sent := size, 0
	drain := func() {
		for {
			buf := tc.endpoint.read()
			if buf == nil {
				return
			}
			sent += len(buf)
			t.Logf("server sent a %d-byte datagram (total %d, allowed %d, limit now %d)", len(buf), sent, 3*received, tc.conn.loss.antiAmplificationLimit)
		}
	}
	drain()
	for i := 0; i < 6; i++ {
		select {
		case <-tc.conn.donec:
			i = 100
			continue
		default:
		}
		if tc.timeUntilEvent() == infiniteDuration {
			break
		}
		tc.advanceToTimer() // PTO: the server retransmits its flight
		drain()
	}
	if sent > 3*received {
		t.Fatalf("server sent %d bytes to an unvalidated address after receiving %d (limit %d)", sent, received, 3*received)
	}
}
