package main

import (
	"slices"
	"encoding/json"
	"flag"
	"fmt"
	"os"
	"path/filepath"
	"runtime"
	rdebug "runtime/debug"
	"runtime/pprof"
	"sort"
	"strconv"
	"strings"
	"sync/atomic"
	"time"

	"golang.org/x/tools/go/ssa"
)

type CheckCfg struct {
	Pkg            string   `json:"pkg"`
	NonTermViol    bool     `json:"nontermination_is_violation"` // the property claims termination: a path that exceeds the instruction bound is a violation, not an inconclusive run
	SkipInit       []string `json:"skip_init"`  // import paths whose package initialiser is not executed (see gSkipInit)
	ExtraPkgs      []string `json:"extra_pkgs"` // further packages holding Verif<ID>_* harnesses of this property
	Title          string   `json:"title"`
	MapOrderMax    int      `json:"map_order_max"`
	MaxThreads     int      `json:"max_threads"`
	MaxSchedPoints int      `json:"max_sched_points"`
	MaxDecisions   int      `json:"max_decisions"`
	MaxPreemptions *int     `json:"max_preemptions"`          // quick tier; default 2
	MaxPreemptionsThorough *int `json:"max_preemptions_thorough"` // default 3
	MaxPreemptionsByHarness map[string][]int `json:"max_preemptions_by_harness"` // harness name -> [quick, thorough]: overrides the two knobs above for that harness
	QuickSecs      int      `json:"quick_secs"`
	ThoroughSecs   int      `json:"thorough_secs"`
	MaxPaths       int      `json:"max_paths"`
	Assumptions    []string `json:"assumptions"`
	Bounds         map[string]string `json:"bounds"`
	Workers        int      `json:"workers"`
	EagerSSA       bool     `json:"eager_ssa"` // build all SSA before exploring (see load.go)
	SchedGlobals   bool     `json:"sched_globals"` // direct loads/stores of the package under test's package-level variables are scheduling points (see extern_st2-hpack.go)
	PoolReuse      []string `json:"pool_reuse"` // harness names that run with the adversarial sync.Pool: Get returns any object Put earlier on the path, or New() (forked); default: always New()
	ConcIndexMax   int      `json:"concretize_index_max"` // symbolic indices into slices/arrays of at most this many cells are forked over instead of merged
}

func loadChecks() (map[string]*CheckCfg, error) {
	// one file per property: harness/checks/<ID>.json
	m := map[string]*CheckCfg{}
	files, _ := filepath.Glob(filepath.Join(gHarnessDir, "checks", "*.json"))
	for _, f := range files {
		b, err := os.ReadFile(f)
		if err != nil {
			return nil, err
		}
		c := &CheckCfg{}
		if err := json.Unmarshal(b, c); err != nil {
			return nil, fmt.Errorf("%s: %v", f, err)
		}
		m[strings.TrimSuffix(filepath.Base(f), ".json")] = c
	}
	return m, nil
}

// known findings file: lines "finding: property=<id> key=<key> <text>" / "fixed: property=<id> <commit> <text>"
type knownFinding struct {
	prop, key, text string
}

func loadKnown() ([]knownFinding, error) {
	b, err := os.ReadFile(filepath.Join(gVerif, "known_findings.txt"))
	if err != nil {
		if os.IsNotExist(err) {
			return nil, nil
		}
		return nil, err
	}
	var res []knownFinding
	for _, line := range strings.Split(string(b), "\n") {
		line = strings.TrimSpace(line)
		if !strings.HasPrefix(line, "finding:") {
			continue
		}
		kf := knownFinding{}
		rest := strings.TrimSpace(strings.TrimPrefix(line, "finding:"))
		fs := strings.Fields(rest)
		var text []string
		for _, f := range fs {
			switch {
			case strings.HasPrefix(f, "property=") && kf.prop == "":
				kf.prop = strings.TrimPrefix(f, "property=")
			case strings.HasPrefix(f, "key=") && kf.key == "":
				kf.key = strings.TrimPrefix(f, "key=")
			default:
				text = append(text, f)
			}
		}
		kf.text = strings.Join(text, " ")
		res = append(res, kf)
	}
	return res, nil
}

func main() {
	if len(os.Args) < 2 {
		fmt.Fprintln(os.Stderr, "usage: symgo check <id> [--tier quick|thorough] | replay <file> | selftest")
		os.Exit(2)
	}
	if v := os.Getenv("VERIF_REPO"); v != "" {
		gRepo = v
	}
	if v := os.Getenv("VERIF_DIR"); v != "" {
		gVerif = v
		gHarnessDir = filepath.Join(v, "harness")
	}
	switch os.Args[1] {
	case "check":
		os.Exit(cmdCheck(os.Args[2:]))
	case "replay":
		os.Exit(cmdReplay(os.Args[2:]))
	case "selftest":
		os.Exit(cmdSelftest(os.Args[2:]))
	}
	fmt.Fprintln(os.Stderr, "unknown command", os.Args[1])
	os.Exit(2)
}

func cmdCheck(args []string) int {
	fs := flag.NewFlagSet("check", flag.ExitOnError)
	tier := fs.String("tier", "", "quick|thorough")
	workers := fs.Int("workers", 0, "worker count")
	only := fs.String("harness", "", "run only this harness")
	debug := fs.Bool("debug", false, "debug output")
	trace := fs.Bool("trace", false, "trace instructions")
	noNative := fs.Bool("no-native", false, "skip native cross-validation")
	secs := fs.Int("secs", 0, "override per-harness time budget")
	noEvidence := fs.Bool("no-evidence", false, "do not write evidence")
	var id string
	if len(args) > 0 && !strings.HasPrefix(args[0], "-") {
		id = args[0]
		args = args[1:]
	}
	fs.Parse(args)
	if id == "" && fs.NArg() > 0 {
		id = fs.Arg(0)
	}
	gDebug, gTrace = *debug, *trace
	if *tier == "" {
		*tier = os.Getenv("VERIF_TIER")
	}
	if *tier == "" {
		*tier = "quick"
	}
	tierN := 0
	if *tier == "thorough" {
		tierN = 1
	}
	seed, _ := strconv.Atoi(os.Getenv("VERIF_SEED"))
	t0 := time.Now()
	if pf := os.Getenv("SYMGO_PROF"); pf != "" {
		if f, err := os.Create(pf); err == nil {
			pprof.StartCPUProfile(f)
			defer pprof.StopCPUProfile()
		}
	}

	checks, err := loadChecks()
	if err != nil {
		fmt.Println("ERROR:", err)
		return 2
	}
	cfg := checks[id]
	if cfg == nil {
		fmt.Println("ERROR: no such check:", id)
		return 2
	}
	known, err := loadKnown()
	if err != nil {
		fmt.Println("ERROR:", err)
		return 2
	}
	knownActive := map[string]bool{}
	knownText := map[string]string{}
	for _, k := range known {
		if k.prop == id {
			knownActive[k.key] = true
			knownText[k.key] = k.text
		}
	}

	ov, err := buildOverlay()
	if err != nil {
		fmt.Println("ERROR:", err)
		return 2
	}
	defer ov.cleanup()
	gEagerSSA = cfg.EagerSSA
	for _, p := range cfg.SkipInit {
		gSkipInit[p] = true
	}
	gNonTermViolation = cfg.NonTermViol
	ld, err := loadPackage(cfg.Pkg, ov)
	if err != nil {
		fmt.Println("ERROR: load:", err)
		return 2
	}
	fns := ld.harnessFuncs(id)
	// harnesses of the same property that live in other packages (check json "extra_pkgs"): each package is loaded
	// into its own SSA program; fnLd / fnPkg remember where a harness function came from
	fnLd := map[*ssa.Function]*Loaded{}
	fnPkg := map[string]string{}
	for _, f := range fns {
		fnLd[f], fnPkg[f.Name()] = ld, cfg.Pkg
	}
	for _, xp := range cfg.ExtraPkgs {
		xld, err := loadPackage(xp, ov)
		if err != nil {
			fmt.Println("ERROR: load:", xp, err)
			return 2
		}
		xf := xld.harnessFuncs(id)
		if len(xf) == 0 {
			fmt.Println("ERROR: no harness functions Verif" + id + "_* in " + xp)
			return 2
		}
		for _, f := range xf {
			fnLd[f], fnPkg[f.Name()] = xld, xp
		}
		fns = append(fns, xf...)
		ld.npkgs += xld.npkgs
		ld.loadSecs += xld.loadSecs
		ld.ssaSecs += xld.ssaSecs
	}
	if *only != "" {
		var f2 []*ssa.Function
		for _, f := range fns {
			for _, o := range strings.Split(*only, ",") {
				if f.Name() == o {
					f2 = append(f2, f)
				}
			}
		}
		fns = f2
	}
	if len(fns) == 0 {
		fmt.Println("ERROR: no harness functions Verif" + id + "_* in " + cfg.Pkg)
		return 2
	}
	fmt.Printf("symgo: property=%s tier=%s pkg=%s harnesses=%d load=%.1fs ssa=%.1fs packages=%d toolchain=%q\n",
		id, *tier, cfg.Pkg, len(fns), ld.loadSecs, ld.ssaSecs, ld.npkgs, ld.toolchain)

	nw := *workers
	if nw == 0 {
		nw = cfg.Workers
	}
	if nw == 0 {
		nw = runtime.NumCPU()
		if nw > 16 {
			nw = 16
		}
	}
	// a worker returning from a pipe read (solver answer) must find a free P at once, otherwise it waits for
	// the 10 ms preemption tick of another CPU-bound worker: keep more Ps than workers
	runtime.GOMAXPROCS(2*nw + 4)
	if os.Getenv("GOGC") == "" {
		rdebug.SetGCPercent(400) // allocation-heavy interpreter, plenty of memory: collect less often
	}
	budget := cfg.QuickSecs
	if budget == 0 {
		budget = 240
	}
	if tierN == 1 {
		budget = cfg.ThoroughSecs
		if budget == 0 {
			budget = 900
		}
	}
	if *secs > 0 {
		budget = *secs
	}
	maxPaths := cfg.MaxPaths
	if maxPaths == 0 {
		maxPaths = 2_000_000
	}

	var results []*HarnessResult
	for _, fn := range fns {
		h := &Harness{Name: fn.Name(), Prop: id, Pkg: fnPkg[fn.Name()], Tier: tierN, MapOrderMax: cfg.MapOrderMax, MaxThreads: cfg.MaxThreads,
			MaxSchedPoints: cfg.MaxSchedPoints, MaxDecisions: cfg.MaxDecisions, KnownActive: knownActive, ConcIndexMax: cfg.ConcIndexMax, SchedGlobals: cfg.SchedGlobals, PoolReuse: slices.Contains(cfg.PoolReuse, fn.Name())}
		if h.MaxThreads == 0 {
			h.MaxThreads = 8
		}
		if h.MaxSchedPoints == 0 {
			h.MaxSchedPoints = 400
		}
		h.MaxPreemptions = 2
		if tierN == 1 {
			h.MaxPreemptions = 3
			if cfg.MaxPreemptionsThorough != nil {
				h.MaxPreemptions = *cfg.MaxPreemptionsThorough
			}
		} else if cfg.MaxPreemptions != nil {
			h.MaxPreemptions = *cfg.MaxPreemptions
		}
		if pb := cfg.MaxPreemptionsByHarness[fn.Name()]; len(pb) == 2 {
			h.MaxPreemptions = pb[tierN]
		}
		if h.MaxDecisions == 0 {
			h.MaxDecisions = 4000
		}
		ex := &Explorer{ld: fnLd[fn], fn: fn, h: h, nworkers: nw, maxPaths: maxPaths, deadline: time.Now().Add(time.Duration(budget) * time.Second), maxVec: 64}
		if tierN == 1 {
			ex.maxVec = 256
		}
		res := ex.run()
		results = append(results, res)
		fmt.Printf("  %s: paths=%d completed=%d blocked=%d asserts=%d solver_checks=%d decisions=%d bound_hits=%d inconclusive=%d violations=%d wall=%.1fs ends=%v\n",
			res.Name, res.Paths, res.Completed, res.Blocked, res.Asserts, res.Checks, res.Decisions, res.BoundHits, len(res.Inconclusive), len(res.Violations), res.Wall, res.ends)
		if res.EngineErr != "" {
			fmt.Printf("  ENGINE-ERROR %s: %s\n", res.Name, res.EngineErr)
		}
		for _, s := range res.Inconclusive {
			fmt.Printf("  INCONCLUSIVE %s: %s\n", res.Name, s)
		}
	}

	// vacuity: every vfReach label mentioned by the harness must have been reached
	exit := 0
	var vacuous []string
	for i, fn := range fns {
		for _, lbl := range reachLabels(fn) {
			if results[i].Reach[lbl] == 0 {
				vacuous = append(vacuous, fn.Name()+":"+lbl)
			}
		}
	}
	for _, v := range vacuous {
		fmt.Println("  VACUOUS: reach marker never reached:", v)
		exit = 2
	}
	for _, r := range results {
		if r.EngineErr != "" || len(r.Inconclusive) > 0 {
			exit = 2
		}
	}

	// native cross-validation of sampled paths, and replay of violations
	validated, mismatches := 0, 0
	var nativeNotes []string
	var confirmed []*Violation
	var replayPaths []string
	if !*noNative {
		var vecs []*Vector
		for _, r := range results {
			vecs = append(vecs, r.Vectors...)
		}
		var viols, hangs []*Violation
		for _, r := range results {
			for _, v := range r.Violations {
				if v.Kind == "nontermination" {
					hangs = append(hangs, v) // replayed one by one under a short deadline, see below
				} else {
					viols = append(viols, v)
				}
			}
		}
		h0 := &Harness{Tier: tierN, KnownActive: knownActive}
		// a path that does not terminate in the engine must not terminate natively either: run its vector alone
		// with a 60 s test deadline; "no result" (the test binary was killed by its deadline) confirms it
		for i, v := range hangs {
			vec := violationVector(h0, v)
			if i >= 2 {
				confirmed = append(confirmed, v) // same harness and label as one replayed above (violations are deduplicated per label)
				replayPaths = append(replayPaths, "")
				continue
			}
			gNativeTimeout = "60s"
			nres, err := runNative(ov, fnPkg[v.Harness], []*Vector{vec})
			gNativeTimeout = "20m"
			if err == nil && len(nres) == 1 && (nres[0].Status == "ok" || strings.HasPrefix(nres[0].Status, "assert:")) {
				fmt.Printf("  UNCONFIRMED non-termination (engine bug or bound too small): %s [%s] native=%s vector=%v\n", v.Harness, v.Label, nres[0].Status, vec.Values)
				exit = 2
				continue
			}
			st := "timeout: the native run did not finish within 60 s"
			if err == nil && len(nres) == 1 && strings.HasPrefix(nres[0].Status, "panic:") && !strings.Contains(nres[0].Status, "timed out") {
				st = nres[0].Status // e.g. stack overflow of an endless recursion
			}
			confirmed = append(confirmed, v)
			p, err := writeReplay(id, fnPkg[v.Harness], v, vec, st)
			if err != nil {
				fmt.Println("  ERROR writing replay:", err)
			}
			replayPaths = append(replayPaths, p)
		}
		for _, v := range viols {
			vecs = append(vecs, violationVector(h0, v))
		}
		if len(vecs) > 0 {
			nres, err := runNativePkgs(ov, fnPkg, vecs)
			if err != nil {
				fmt.Println("  NATIVE-ERROR:", err)
				exit = 2
			} else {
				nOK := len(vecs) - len(viols)
				for i := 0; i < nOK; i++ {
					d := compareNative(vecs[i], nres[i])
					if d != "" && mismatches < 8 {
						// Run the vector again, alone in a fresh test process: state that survives from one vector to the
						// next in the shared process (sync.Pool contents, package-level caches) is not part of the path
						// the engine explored. Only a difference that persists in isolation is a translation mismatch.
						if r2, err2 := runNative(ov, fnPkg[vecs[i].Harness], []*Vector{vecs[i]}); err2 == nil && len(r2) == 1 {
							if d2 := compareNative(vecs[i], r2[0]); d2 == "" {
								fmt.Printf("  note: %s vector %v differed natively in the shared test process (%s) and agreed when run alone\n", vecs[i].Harness, vecs[i].Values, d)
								d = ""
							}
						}
					}
					if d != "" {
						mismatches++
						if len(nativeNotes) < 5 {
							nativeNotes = append(nativeNotes, fmt.Sprintf("%s vector %v: %s", vecs[i].Harness, vecs[i].Values, d))
						}
					} else {
						validated++
					}
				}
				for i, v := range viols {
					nr := nres[nOK+i]
					if strings.HasPrefix(nr.Status, "assert:") || strings.HasPrefix(nr.Status, "panic:") {
						confirmed = append(confirmed, v)
						p, err := writeReplay(id, fnPkg[v.Harness], v, vecs[nOK+i], nr.Status)
						if err != nil {
							fmt.Println("  ERROR writing replay:", err)
						}
						replayPaths = append(replayPaths, p)
					} else if v.Sched && nr.Status == "ok" {
						// DESIGN "Concurrency": a scheduler/select/map-order choice cannot be forced in a native run;
						// the engine's deterministic re-execution of the recorded decision trail is the replay.
						fmt.Printf("  schedule-dependent violation (not forced natively; the decision trail is the replay): %s %s [%s]\n", v.Harness, v.Kind, v.Label)
						confirmed = append(confirmed, v)
						replayPaths = append(replayPaths, "")
					} else {
						fmt.Printf("  UNCONFIRMED counterexample (engine/stub bug): %s %s [%s] native=%s vector=%v\n", v.Harness, v.Kind, v.Label, nr.Status, vecs[nOK+i].Values)
						exit = 2
					}
				}
			}
		}
		if mismatches > 0 {
			fmt.Printf("  TRANSLATION-MISMATCH: %d of %d sampled paths behave differently natively\n", mismatches, mismatches+validated)
			for _, n := range nativeNotes {
				fmt.Println("    ", n)
			}
			exit = 2
		}
	} else {
		for _, r := range results {
			for _, v := range r.Violations {
				fmt.Printf("  (not replayed) violation %s %s [%s] at %s\n", v.Harness, v.Kind, v.Label, v.Where)
				confirmed = append(confirmed, v)
				replayPaths = append(replayPaths, "")
			}
		}
	}

	printForkStat()
	// known findings seen
	knownSeen := map[string]int{}
	for _, r := range results {
		for k, n := range r.Known {
			knownSeen[k] += n
		}
	}
	keys := make([]string, 0, len(knownSeen))
	for k := range knownSeen {
		keys = append(keys, k)
	}
	sort.Strings(keys)
	for _, k := range keys {
		fmt.Printf("KNOWN-FINDING: property=%s %s (key=%s, %d paths)\n", id, knownText[k], k, knownSeen[k])
	}

	wall := time.Since(t0).Seconds()
	if !*noEvidence && *only == "" {
		if err := writeEvidence(id, *tier, seed, cfg, ld, results, validated, mismatches, len(confirmed), knownSeen, vacuous, wall); err != nil {
			fmt.Println("ERROR writing evidence:", err)
			exit = 2
		}
	}
	if len(confirmed) > 0 {
		for i, v := range confirmed {
			fmt.Printf("  violation: %s %s [%s] at %s\n", v.Harness, v.Kind, v.Label, v.Where)
			fmt.Printf("VIOLATION property=%s replay=%s\n", id, replayPaths[i])
		}
		return 1
	}
	if exit == 0 {
		fmt.Printf("OK property=%s wall=%.1fs solver_queries=%d (sat=%d unsat=%d unknown=%d) solver_s=%.1f validated_natively=%d\n", id, wall,
			atomic.LoadInt64(&gStats.Queries), gStats.Sat, gStats.Unsat, gStats.Unknown, float64(gStats.Nanos)/1e9, validated)
	} else {
		fmt.Printf("INCONCLUSIVE property=%s (check is broken or bound too large; see lines above) wall=%.1fs solver_queries=%d solver_s=%.1f\n", id, wall, atomic.LoadInt64(&gStats.Queries), float64(gStats.Nanos)/1e9)
	}
	return exit
}

// runNativePkgs runs the vectors natively, one `go test` per package, and returns the results in the order of vecs.
func runNativePkgs(ov *overlaySet, fnPkg map[string]string, vecs []*Vector) ([]nativeResult, error) {
	byPkg := map[string][]int{}
	var order []string
	for i, v := range vecs {
		p := fnPkg[v.Harness]
		if _, ok := byPkg[p]; !ok {
			order = append(order, p)
		}
		byPkg[p] = append(byPkg[p], i)
	}
	res := make([]nativeResult, len(vecs))
	for _, p := range order {
		sub := make([]*Vector, 0, len(byPkg[p]))
		for _, i := range byPkg[p] {
			sub = append(sub, vecs[i])
		}
		r, err := runNative(ov, p, sub)
		if err != nil {
			return nil, err
		}
		for k, i := range byPkg[p] {
			res[i] = r[k]
		}
	}
	return res, nil
}

// reachLabels finds the constant labels of vfReach calls in fn and the harness-file functions it references.
func reachLabels(fn *ssa.Function) []string {
	seen := map[*ssa.Function]bool{}
	labels := map[string]bool{}
	var visit func(f *ssa.Function)
	visit = func(f *ssa.Function) {
		if f == nil || seen[f] || f.Blocks == nil {
			return
		}
		seen[f] = true
		for _, b := range f.Blocks {
			for _, ins := range b.Instrs {
				var ops [16]*ssa.Value
				for _, op := range ins.Operands(ops[:0]) {
					if g, ok := (*op).(*ssa.Function); ok && g.Pkg == fn.Pkg && isHarnessFile(g) {
						visit(g)
					}
					if mc, ok := (*op).(*ssa.MakeClosure); ok {
						visit(mc.Fn.(*ssa.Function))
					}
				}
				if c, ok := ins.(ssa.CallInstruction); ok {
					if callee := c.Common().StaticCallee(); callee != nil && callee.Name() == "vfReach" {
						if k, ok := c.Common().Args[0].(*ssa.Const); ok {
							labels[constValue(k).(string)] = true
						}
					}
				}
			}
		}
		for _, a := range f.AnonFuncs {
			visit(a)
		}
	}
	visit(fn)
	var res []string
	for l := range labels {
		res = append(res, l)
	}
	sort.Strings(res)
	return res
}

func isHarnessFile(f *ssa.Function) bool {
	if f.Pos() == 0 {
		return false
	}
	name := filepath.Base(f.Prog.Fset.Position(f.Pos()).Filename)
	return strings.HasPrefix(name, "zz_verif_")
}
