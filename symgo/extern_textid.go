package main

// Intrinsics added for the text/identifier packages (proxy, httpproxy, socks, publicsuffix, idna).

import (
	"sync"
)

// unique.Make[T](v) -> Handle[T]{value *T}: canonical pointer per distinct value. Values created by package
// initialisers (or fully concrete ones) are canonical per worker; values with symbolic parts are canonical per path
// (equality against existing entries forks).
type uniqEnt struct {
	t string
	v value
	p *value
}

var (
	uniqMu     sync.Mutex
	uniqWorld  = map[*World]*[]uniqEnt{}
	uniqRunKey = new(value)
)

func init() {
	externals["unique.Make"] = extUniqueMake
}

func extUniqueMake(fr *frame, args []value) value {
	w := fr.w
	T := fr.fn.TypeArgs()[0]
	ts := T.String()
	v := copyVal(args[0])
	uniqMu.Lock()
	wt := uniqWorld[w]
	if wt == nil {
		wt = &[]uniqEnt{}
		uniqWorld[w] = wt
	}
	uniqMu.Unlock()
	lookup := func(tab []uniqEnt) *value {
		for _, e := range tab {
			if e.t != ts {
				continue
			}
			if w.truth(w.eqv(fr, T, e.v, v)) {
				return e.p
			}
		}
		return nil
	}
	if p := lookup(*wt); p != nil {
		return structure{p}
	}
	cell := new(value)
	*cell = v
	if w.run == nil || w.inInit > 0 || !anySymbolic(v, 0) && !w.logging {
		*wt = append(*wt, uniqEnt{ts, v, cell})
		return structure{cell}
	}
	var rt *[]uniqEnt
	if o, ok := w.run.syncState[uniqRunKey]; ok {
		rt = o.(*[]uniqEnt)
	} else {
		rt = &[]uniqEnt{}
		w.run.syncState[uniqRunKey] = rt
	}
	if p := lookup(*rt); p != nil {
		return structure{p}
	}
	*rt = append(*rt, uniqEnt{ts, v, cell})
	return structure{cell}
}

// extDecline is returned by an intrinsic that does not want to handle this particular call: the real function body
// is interpreted instead (see callSSA).
var extDecline value = &opaqueStr{tag: "<declined intrinsic>"}

// strconv integer formatting of a *symbolic* operand inside error messages of internal/socks
// ("unexpected protocol version "+strconv.Itoa(int(b[0]))): an opaque string (like fmt.Sprintf) instead of one path per
// value. Every other call (concrete operand, other callers) runs the real strconv code.
func init() {
	fmtInt := func(fr *frame, args []value) value {
		if _, ok := args[0].(*Term); !ok {
			return extDecline
		}
		if fr.caller == nil || fr.caller.fn.Pkg == nil || fr.caller.fn.Pkg.Pkg.Path() != "golang.org/x/net/internal/socks" {
			return extDecline
		}
		return &opaqueStr{tag: fr.fn.String() + "@" + fr.w.where(fr.caller, fr.callpos)}
	}
	externals["strconv.Itoa"] = fmtInt
}
