package main

import (
	"fmt"
	"go/token"
	"go/types"

	"golang.org/x/tools/go/ssa"
)

type undoRec struct {
	addr *value
	old  value
}

// setCell writes a cell, logging the old contents so the heap can be rolled back after the path.
func (w *World) setCell(addr *value, v value) {
	if w.logging {
		w.undo = append(w.undo, undoRec{addr, *addr})
	}
	*addr = v
}

// load returns a copy of the value of type T in *addr.
func load(T types.Type, addr *value) value {
	switch T := T.Underlying().(type) {
	case *types.Struct:
		v := (*addr).(structure)
		a := make(structure, len(v))
		for i := range a {
			a[i] = load(T.Field(i).Type(), &v[i])
		}
		return a
	case *types.Array:
		v := (*addr).(array)
		a := make(array, len(v))
		for i := range a {
			a[i] = load(T.Elem(), &v[i])
		}
		return a
	default:
		return *addr
	}
}

// store stores value v of type T into *addr (element-wise for aggregates so that interior pointers stay valid).
func (w *World) store(T types.Type, addr *value, v value) {
	switch T := T.Underlying().(type) {
	case *types.Struct:
		lhs := (*addr).(structure)
		rhs := v.(structure)
		for i := range lhs {
			w.store(T.Field(i).Type(), &lhs[i], rhs[i])
		}
	case *types.Array:
		lhs := (*addr).(array)
		rhs := v.(array)
		for i := range lhs {
			w.store(T.Elem(), &lhs[i], rhs[i])
		}
	default:
		w.setCell(addr, v)
	}
}

func (w *World) nilDeref(fr *frame, pos token.Pos) {
	w.rtPanic(fr, pos, "invalid memory address or nil pointer dereference")
}

func (w *World) loadFrom(fr *frame, pos token.Pos, T types.Type, p value) value {
	switch p := p.(type) {
	case *value:
		if p == nil {
			w.nilDeref(fr, pos)
		}
		return load(T, p)
	case *symptr:
		return w.symLoad(fr, pos, T, p)
	}
	panic(engineError{fmt.Sprintf("load through %T at %s", p, w.where(fr, pos))})
}

func (w *World) storeTo(fr *frame, pos token.Pos, T types.Type, p value, v value) {
	switch p := p.(type) {
	case *value:
		if p == nil {
			w.nilDeref(fr, pos)
		}
		w.store(T, p, v)
		return
	case *symptr:
		w.symStore(fr, pos, T, p, v)
		return
	}
	panic(engineError{fmt.Sprintf("store through %T at %s", p, w.where(fr, pos))})
}

func (w *World) fieldAddr(fr *frame, pos token.Pos, x value, field int) value {
	switch p := x.(type) {
	case *value:
		if p == nil {
			w.nilDeref(fr, pos)
		}
		return &(*p).(structure)[field]
	case *symptr:
		np := &symptr{cells: p.cells, idx: p.idx, path: append(append([]int(nil), p.path...), field)}
		return np
	}
	panic(engineError{fmt.Sprintf("fieldAddr on %T", x)})
}

// ---------------------------------------------------------------------
// symbolic pointers

// resolve follows the path of a symptr inside one candidate cell.
func resolvePath(c *value, path []int) *value {
	for _, f := range path {
		switch agg := (*c).(type) {
		case structure:
			c = &agg[f]
		case array:
			c = &agg[f]
		default:
			panic(engineError{fmt.Sprintf("resolvePath: %T", *c)})
		}
	}
	return c
}

// idxGuard returns the term idx == i.
func (w *World) idxGuard(p *symptr, i int) *Term {
	return w.tt.Cmp(OpEq, p.idx, w.tt.Const(uint64(i), p.idx.W))
}

// mergeable reports whether values of type T can be merged with ite (scalars and aggregates of scalars).
func mergeable(T types.Type) bool {
	switch T := T.Underlying().(type) {
	case *types.Basic:
		return T.Info()&(types.IsInteger|types.IsBoolean) != 0
	case *types.Struct:
		for i := 0; i < T.NumFields(); i++ {
			if !mergeable(T.Field(i).Type()) {
				return false
			}
		}
		return true
	case *types.Array:
		return mergeable(T.Elem())
	}
	return false
}

// iteVal builds ite(c, a, b) for mergeable type T.
func (w *World) iteVal(T types.Type, c *Term, a, b value) value {
	switch T := T.Underlying().(type) {
	case *types.Basic:
		if ac, ok := a.(uint64); ok {
			if bc, ok := b.(uint64); ok && ac == bc {
				return a
			}
		}
		if ac, ok := a.(bool); ok {
			if bc, ok := b.(bool); ok && ac == bc {
				return a
			}
		}
		return fromTerm(w.tt.Ite(c, w.toTerm(a, T), w.toTerm(b, T)))
	case *types.Struct:
		as, bs := a.(structure), b.(structure)
		r := make(structure, len(as))
		for i := range r {
			r[i] = w.iteVal(T.Field(i).Type(), c, as[i], bs[i])
		}
		return r
	case *types.Array:
		as, bs := a.(array), b.(array)
		r := make(array, len(as))
		for i := range r {
			r[i] = w.iteVal(T.Elem(), c, as[i], bs[i])
		}
		return r
	}
	panic(engineError{"iteVal: not mergeable: " + T.String()})
}

// sameVal is a cheap identity test used to group candidate cells holding the same reference.
func sameVal(a, b value) bool {
	switch av := a.(type) {
	case *value:
		bv, ok := b.(*value)
		return ok && av == bv
	case uint64:
		bv, ok := b.(uint64)
		return ok && av == bv
	case bool:
		bv, ok := b.(bool)
		return ok && av == bv
	case string:
		bv, ok := b.(string)
		return ok && av == bv
	case *Term:
		bv, ok := b.(*Term)
		return ok && av == bv
	case *ssa.Function:
		bv, ok := b.(*ssa.Function)
		return ok && av == bv
	case *omap:
		bv, ok := b.(*omap)
		return ok && av == bv
	case []value:
		bv, ok := b.([]value)
		if !ok || len(av) != len(bv) {
			return false
		}
		if len(av) == 0 {
			return (av == nil) == (bv == nil)
		}
		return &av[0] == &bv[0]
	case iface:
		bv, ok := b.(iface)
		if !ok {
			return false
		}
		if av.t == nil || bv.t == nil {
			return av.t == nil && bv.t == nil
		}
		return types.Identical(av.t, bv.t) && sameVal(av.v, bv.v)
	}
	return false
}

func (w *World) symLoad(fr *frame, pos token.Pos, T types.Type, p *symptr) value {
	n := len(p.cells)
	if mergeable(T) {
		// balanced ite tree over the index bits would be smaller; a chain is fine for n<=256
		// balanced decision tree on the index (runs of equal values collapse), not a 256-deep ite chain
		vals := make([]value, n)
		for i := 0; i < n; i++ {
			vals[i] = load(T, resolvePath(p.cells[i], p.path))
		}
		res := w.muxTree(T, p.idx, vals, 0, n)
		// a table lookup the path condition already pins to a constant (e.g. after vfConcretize of the same lookup)
		if t, ok := res.(*Term); ok && w.run != nil && t.W > 0 {
			if k, ok := w.run.pinned[t]; ok {
				return uint64(k)
			}
		}
		return res
	}
	// group candidates by identical contents, fork over the groups
	type group struct {
		v     value
		idxs  []int
		guard *Term
	}
	var groups []group
	for i := 0; i < n; i++ {
		v := load(T, resolvePath(p.cells[i], p.path))
		found := false
		for k := range groups {
			if sameVal(groups[k].v, v) {
				groups[k].idxs = append(groups[k].idxs, i)
				found = true
				break
			}
		}
		if !found {
			groups = append(groups, group{v: v, idxs: []int{i}})
		}
	}
	for k := range groups {
		groups[k].guard = w.rangesGuard(p.idx, groups[k].idxs)
	}
	for k := 0; k < len(groups)-1; k++ {
		if w.branch(groups[k].guard) {
			return groups[k].v
		}
	}
	return groups[len(groups)-1].v
}

// rangesGuard builds idx ∈ idxs (ascending) as a disjunction of interval tests.
func (w *World) rangesGuard(idx *Term, idxs []int) *Term {
	tt := w.tt
	g := tt.False
	for i := 0; i < len(idxs); {
		j := i
		for j+1 < len(idxs) && idxs[j+1] == idxs[j]+1 {
			j++
		}
		lo, hi := tt.Const(uint64(idxs[i]), idx.W), tt.Const(uint64(idxs[j]), idx.W)
		var r *Term
		if i == j {
			r = tt.Cmp(OpEq, idx, lo)
		} else {
			r = tt.BAnd(tt.Cmp(OpUle, lo, idx), tt.Cmp(OpUle, idx, hi))
		}
		g = tt.BOr(g, r)
		i = j + 1
	}
	return g
}

// muxTree selects vals[idx] for idx in [lo,hi) with a balanced tree of comparisons.
func (w *World) muxTree(T types.Type, idx *Term, vals []value, lo, hi int) value {
	if hi-lo == 1 {
		return vals[lo]
	}
	same := true
	for i := lo + 1; i < hi; i++ {
		if !sameVal(vals[lo], vals[i]) {
			same = false
			break
		}
	}
	if same {
		if _, isAgg := vals[lo].(structure); !isAgg {
			if _, isArr := vals[lo].(array); !isArr {
				return vals[lo]
			}
		}
	}
	mid := (lo + hi) / 2
	l := w.muxTree(T, idx, vals, lo, mid)
	r := w.muxTree(T, idx, vals, mid, hi)
	c := w.tt.Cmp(OpUlt, idx, w.tt.Const(uint64(mid), idx.W))
	return w.iteVal(T, c, l, r)
}

func (w *World) symStore(fr *frame, pos token.Pos, T types.Type, p *symptr, v value) {
	if mergeable(T) {
		for i, c := range p.cells {
			cell := resolvePath(c, p.path)
			old := load(T, cell)
			w.store(T, cell, w.iteVal(T, w.idxGuard(p, i), v, old))
		}
		return
	}
	// fork over the target
	i := int(w.concretize(p.idx, len(p.cells)+1))
	w.store(T, resolvePath(p.cells[i], p.path), v)
}

func (w *World) symptrEq(p *symptr, q *value) value {
	var res value = false
	for i, c := range p.cells {
		if resolvePath(c, p.path) == q {
			res = w.orv(res, fromTerm(w.idxGuard(p, i)))
		}
	}
	return res
}

// ---------------------------------------------------------------------
// indexing

// checkIndex makes idx concrete-or-symbolic in range [0,n); out of range raises the Go panic.
// It returns (concrete index, symbolic term) where exactly one is meaningful (term nil if concrete).
func (w *World) checkIndex(fr *frame, pos token.Pos, idx value, T types.Type, n int) (int, *Term) {
	wd, signed := intInfo(T)
	switch iv := idx.(type) {
	case uint64:
		i := int64(iv)
		if signed {
			i = sext64(iv, wd)
		}
		if i < 0 || i >= int64(n) || (!signed && iv >= uint64(n)) {
			w.rtPanic(fr, pos, fmt.Sprintf("index out of range [%d] with length %d", i, n))
		}
		return int(i), nil
	case *Term:
		// unsigned compare covers negatives for signed types too
		wide := iv
		if wd < 64 {
			if signed {
				wide = w.tt.SExt(iv, 64)
			} else {
				wide = w.tt.ZExt(iv, 64)
			}
		}
		inr := w.tt.Cmp(OpUlt, wide, w.tt.Const(uint64(n), 64))
		if n == 0 || !w.branch(inr) {
			w.rtPanic(fr, pos, fmt.Sprintf("index out of range [sym] with length %d", n))
		}
		// does the path condition pin the index?
		return 0, iv
	}
	panic(engineError{fmt.Sprintf("checkIndex: %T", idx)})
}

const symIndexMax = 1024

func (w *World) cellsAddr(fr *frame, pos token.Pos, cells []value, idx value, T types.Type) value {
	i, t := w.checkIndex(fr, pos, idx, T, len(cells))
	if t == nil {
		return &cells[i]
	}
	if len(cells) == 1 {
		return &cells[0]
	}
	if len(cells) > symIndexMax {
		if ub, ok := termUB(t, 0); ok && ub < symIndexMax {
			cells = cells[:ub+1] // narrow index into a large table: only the reachable prefix is a candidate
		} else {
			return &cells[w.concretize(t, symIndexMax)]
		}
	}
	if len(cells) <= w.h.ConcIndexMax {
		// check knob "concretize_index_max": fork over the index instead of building a mux term
		return &cells[w.concretize(t, len(cells)+1)]
	}
	// narrow candidates to a small index width when possible
	ps := make([]*value, len(cells))
	for k := range cells {
		ps[k] = &cells[k]
	}
	return &symptr{cells: ps, idx: t}
}

func (w *World) indexAddr(fr *frame, instr *ssa.IndexAddr, x, idx value) value {
	switch x := x.(type) {
	case []value:
		return w.cellsAddr(fr, instr.Pos(), x, idx, instr.Index.Type())
	case *value: // *array
		if x == nil {
			w.nilDeref(fr, instr.Pos())
		}
		return w.cellsAddr(fr, instr.Pos(), []value((*x).(array)), idx, instr.Index.Type())
	case *symptr:
		// element of an array reached through a symbolic pointer: concretise the outer pointer
		k := int(w.concretize(x.idx, len(x.cells)+1))
		c := resolvePath(x.cells[k], x.path)
		return w.cellsAddr(fr, instr.Pos(), []value((*c).(array)), idx, instr.Index.Type())
	}
	panic(engineError{fmt.Sprintf("unexpected x type in IndexAddr: %T", x)})
}

func (w *World) index(fr *frame, instr *ssa.Index, x, idx value) value {
	switch x := x.(type) {
	case array:
		i, t := w.checkIndex(fr, instr.Pos(), idx, instr.Index.Type(), len(x))
		if t == nil {
			return copyVal(x[i])
		}
		ps := make([]*value, len(x))
		for k := range x {
			ps[k] = &x[k]
		}
		et := instr.X.Type().Underlying().(*types.Array).Elem()
		return w.symLoad(fr, instr.Pos(), et, &symptr{cells: ps, idx: t})
	case string, *symstr:
		n := strLen(x)
		i, t := w.checkIndex(fr, instr.Pos(), idx, instr.Index.Type(), n)
		if t == nil {
			return strAt(x, i)
		}
		b := strBytes(x)
		res := w.toTermW(b[n-1], 8)
		for k := n - 2; k >= 0; k-- {
			res = w.tt.Ite(w.tt.Cmp(OpEq, t, w.tt.Const(uint64(k), t.W)), w.toTermW(b[k], 8), res)
		}
		return fromTerm(res)
	}
	panic(engineError{fmt.Sprintf("unexpected x type in Index: %T", x)})
}

// sliceBound concretises a slice bound.
func (w *World) sliceBound(fr *frame, v value, T types.Type, def int) (int64, bool) {
	if v == nil {
		return int64(def), true
	}
	wd, signed := intInfo(T)
	switch b := v.(type) {
	case uint64:
		if signed {
			return sext64(b, wd), true
		}
		if b > 1<<62 {
			return -1, true
		}
		return int64(b), true
	case *Term:
		c := w.concretize(b, 4096)
		if signed {
			return sext64(c, wd), true
		}
		if c > 1<<62 {
			return -1, true
		}
		return int64(c), true
	}
	panic(engineError{fmt.Sprintf("sliceBound: %T", v)})
}

func (w *World) slice(fr *frame, instr *ssa.Slice, x, lo, hi, max value) value {
	var Len, Cap int
	switch x := x.(type) {
	case string, *symstr:
		Len = strLen(x)
		Cap = Len
	case *opaqueStr:
		unsupported("slicing opaque string")
	case []value:
		Len = len(x)
		Cap = cap(x)
	case *value:
		if x == nil {
			w.nilDeref(fr, instr.Pos())
		}
		a := (*x).(array)
		Len = len(a)
		Cap = len(a)
	default:
		panic(engineError{fmt.Sprintf("slice: unexpected X type: %T", x)})
	}
	// Symbolic bounds: check range symbolically first so the panic side is one path, then concretise.
	w.sliceRangeCheck(fr, instr, lo, hi, max, Len, Cap)
	tl, th, tm := types.Type(types.Typ[types.Int]), types.Type(types.Typ[types.Int]), types.Type(types.Typ[types.Int])
	if instr.Low != nil {
		tl = instr.Low.Type()
	}
	if instr.High != nil {
		th = instr.High.Type()
	}
	if instr.Max != nil {
		tm = instr.Max.Type()
	}
	l, _ := w.sliceBound(fr, lo, tl, 0)
	h, _ := w.sliceBound(fr, hi, th, Len)
	m, _ := w.sliceBound(fr, max, tm, Cap)
	_, isStr := x.(string)
	if _, ok := x.(*symstr); ok {
		isStr = true
	}
	if isStr {
		Cap = Len
		m = int64(Len)
	}
	if l < 0 || h < l || m < h || m > int64(Cap) {
		w.rtPanic(fr, instr.Pos(), fmt.Sprintf("slice bounds out of range [%d:%d:%d] with capacity %d", l, h, m, Cap))
	}
	switch x := x.(type) {
	case string, *symstr:
		return strSlice(x, int(l), int(h))
	case []value:
		if x == nil {
			return []value(nil)
		}
		return x[l:h:m]
	case *value:
		a := (*x).(array)
		return []value(a)[l:h:m]
	}
	panic("unreachable")
}

// sliceRangeCheck branches once on "all symbolic bounds are in range" so that out-of-range values
// form a single panicking path instead of one path per value.
func (w *World) sliceRangeCheck(fr *frame, instr *ssa.Slice, lo, hi, max value, Len, Cap int) {
	tt := w.tt
	ok := tt.True
	anySym := false
	conv := func(v value, sv ssa.Value, def int) *Term {
		if v == nil {
			return tt.Const(uint64(def), 64)
		}
		wd, signed := intInfo(sv.Type())
		switch b := v.(type) {
		case uint64:
			if signed {
				return tt.Const(uint64(sext64(b, wd)), 64)
			}
			return tt.Const(b, 64)
		case *Term:
			anySym = true
			if signed {
				return tt.SExt(b, 64)
			}
			if wd == 64 {
				// huge unsigned values are out of range: fold into check below via unsigned compare
				return b
			}
			return tt.ZExt(b, 64)
		}
		panic(engineError{"sliceRangeCheck"})
	}
	l := conv(lo, instr.Low, 0)
	defHi := Len
	h := conv(hi, instr.High, defHi)
	m := conv(max, instr.Max, Cap)
	if !anySym {
		return
	}
	// 0 <= l <= h <= m <= Cap  (unsigned comparisons make negatives huge)
	ok = tt.BAnd(ok, tt.Cmp(OpUle, l, h))
	ok = tt.BAnd(ok, tt.Cmp(OpUle, h, m))
	ok = tt.BAnd(ok, tt.Cmp(OpUle, m, tt.Const(uint64(Cap), 64)))
	if !w.branch(ok) {
		w.rtPanic(fr, instr.Pos(), "slice bounds out of range [symbolic]")
	}
}
