package main

// Intrinsics added for the icmp / websocket / xsrftoken harnesses (C57, C59, C60).

func init() {
	// net/netip's package initialiser interns two values with unique.Make (which needs abi.TypeFor and the
	// runtime's weak pointers). Inside a package initialiser the handle is a zero Handle: only code that
	// compares netip.Addr zones would observe it, and that is an engine error outside initialisers.
	externals["unique.Make"] = func(fr *frame, args []value) value {
		if fr.w.inInit > 0 {
			return zeroResult(fr.fn)
		}
		unsupported("unique.Make at %s", fr.w.where(fr.caller, fr.callpos))
		return nil
	}

	// crypto/rand.Reader (websocket masking keys): fresh symbolic octets that are not part of the replay vector
	// (the native run draws real random octets; harnesses must not observe values depending on them).
	externals["(*crypto/rand.reader).Read"] = func(fr *frame, args []value) value {
		w := fr.w
		b := args[1].([]value)
		for i := range b {
			w.setCell(&b[i], fromTerm(w.newInternalInput("rand", 8)))
		}
		return tuple{uint64(len(b)), iface{}}
	}
}
