package main

// Intrinsics added for the icmp / websocket / xsrftoken harnesses (C57, C59, C60).

func init() {
	// net/netip's package initialiser interns two values with unique.Make (which needs abi.TypeFor and the
	// runtime's weak pointers). Inside a package initialiser the handle is a zero Handle: only code that
	// compares netip.Addr zones would observe it, and that is an engine error outside initialisers.
	externals["unique.Make"] = func(fr *frame, args []value) value {
		if fr.w.inInit > 0 {
			return zeroResult(fr.fn)
		}
		unsupported("unique.Make at %s", fr.w.where(fr.caller, fr.callpos))
		return nil
	}
}
