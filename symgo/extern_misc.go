package main

import (
	"fmt"
	"go/token"
	"go/types"
)

// Intrinsics added for the icmp / websocket / xsrftoken harnesses (C57, C59, C60).

func init() {
	// net/netip's package initialiser interns two values with unique.Make (which needs abi.TypeFor and the
	// runtime's weak pointers). Inside a package initialiser the handle is a zero Handle: only code that
	// compares netip.Addr zones would observe it, and that is an engine error outside initialisers.
	externals["unique.Make"] = func(fr *frame, args []value) value {
		if fr.w.inInit > 0 {
			return zeroResult(fr.fn)
		}
		unsupported("unique.Make at %s", fr.w.where(fr.caller, fr.callpos))
		return nil
	}

	// crypto/rand.Reader (websocket masking keys): fresh symbolic octets that are not part of the replay vector
	// (the native run draws real random octets; harnesses must not observe values depending on them).
	externals["(*crypto/rand.reader).Read"] = func(fr *frame, args []value) value {
		w := fr.w
		b := args[1].([]value)
		for i := range b {
			w.setCell(&b[i], fromTerm(w.newInternalInput("rand", 8)))
		}
		return tuple{uint64(len(b)), iface{}}
	}

	// code-signature markers of crypto/internal/boring (bodiless assembly stubs without effect)
	for _, k := range []string{"crypto/internal/boring/sig.StandardCrypto", "crypto/internal/boring/sig.BoringCrypto", "crypto/internal/boring/sig.FIPSOnly"} {
		externals[k] = func(fr *frame, args []value) value { return nil }
	}
	// FIPS 140 service indicator (per-goroutine runtime state, never read by the code under test)
	externals["crypto/internal/fips140.setIndicator"] = func(fr *frame, args []value) value { return nil }
	externals["crypto/internal/fips140.getIndicator"] = func(fr *frame, args []value) value { return uint64(0) }
	// fmt.Sprintf / fmt.Fprintf with a concrete format and concrete operands of plain basic types are computed by
	// the host's fmt (xsrftoken builds and parses its tokens this way); anything else keeps the opaque / no-op
	// behaviour of extern.go.
	externals["fmt.Sprintf"] = func(fr *frame, args []value) value {
		if s, ok := concreteFormat(args, 0); ok {
			return s
		}
		return extSprintf(fr, args)
	}
	externals["fmt.Fprintf"] = func(fr *frame, args []value) value {
		if s, ok := concreteFormat(args, 1); ok {
			if wr, isIface := args[0].(iface); isIface && wr.t != nil {
				return fr.w.callMethodArgs(fr, wr, "Write", []value(strBytes(s)))
			}
		}
		if wr, isIface := args[0].(iface); isIface && wr.t != nil {
			ms := fr.w.prog.MethodSets.MethodSet(wr.t)
			for i := 0; i < ms.Len(); i++ {
				if ms.At(i).Obj().Name() == "Sum" { // a hash.Hash: dropping its input silently would be unsound
					unsupported("fmt.Fprintf of symbolic operands into a hash at %s", fr.w.where(fr.caller, fr.callpos))
				}
			}
		}
		return tuple{uint64(0), iface{}}
	}
}

// concreteFormat formats args[fi] (format) with args[fi+1] (the variadic slice) when everything is concrete and
// every operand is an unnamed basic string/integer/bool (no Stringer/Formatter could be involved).
func concreteFormat(args []value, fi int) (string, bool) {
	format, ok := args[fi].(string)
	if !ok {
		return "", false
	}
	va, _ := args[fi+1].([]value)
	host := make([]any, 0, len(va))
	for _, a := range va {
		ifv, ok := a.(iface)
		if !ok || ifv.t == nil {
			return "", false
		}
		bt, ok := ifv.t.(*types.Basic)
		if !ok {
			return "", false
		}
		switch x := ifv.v.(type) {
		case string:
			host = append(host, x)
		case bool:
			host = append(host, x)
		case uint64:
			switch bt.Kind() {
			case types.Int, types.Int64:
				host = append(host, int64(x))
			case types.Int32:
				host = append(host, int32(x))
			case types.Int16:
				host = append(host, int16(x))
			case types.Int8:
				host = append(host, int8(x))
			case types.Uint, types.Uint64, types.Uintptr:
				host = append(host, x)
			case types.Uint32:
				host = append(host, uint32(x))
			case types.Uint16:
				host = append(host, uint16(x))
			case types.Uint8:
				host = append(host, uint8(x))
			default:
				return "", false
			}
		default:
			return "", false
		}
	}
	return fmt.Sprintf(format, host...), true
}

// callMethodArgs calls the method called name of the dynamic value of recv.
func (w *World) callMethodArgs(fr *frame, recv iface, name string, args ...value) value {
	ms := w.prog.MethodSets.MethodSet(recv.t)
	for i := 0; i < ms.Len(); i++ {
		if ms.At(i).Obj().Name() == name {
			fn := w.prog.MethodValue(ms.At(i))
			return w.call(fr, token.NoPos, fn, append([]value{recv.v}, args...))
		}
	}
	panic(engineError{"callMethodArgs: no method " + name + " on " + recv.t.String()})
}
