package main

import "sync"

// Intrinsics added for the quic codec harnesses (C28, C31).

// unique.Make[T]: intern by value. Only values made of concrete scalars/strings (possibly nested in
// structs/arrays) are supported — net/netip's addrDetail{isV6 bool; zoneV6 string} is the user. The canonical
// pointer is kept per World (pointers never escape a World); the pointee is never mutated by package unique.
var uniqTabs sync.Map // *World -> *[]uniqEntry

type uniqEntry struct {
	typ string
	v   value
	p   *value
}

func uniqSame(a, b value) (same, ok bool) {
	switch av := a.(type) {
	case structure:
		bv, isS := b.(structure)
		if !isS || len(av) != len(bv) {
			return false, true
		}
		for i := range av {
			s, k := uniqSame(av[i], bv[i])
			if !k {
				return false, false
			}
			if !s {
				return false, true
			}
		}
		return true, true
	case array:
		bv, isA := b.(array)
		if !isA || len(av) != len(bv) {
			return false, true
		}
		for i := range av {
			s, k := uniqSame(av[i], bv[i])
			if !k {
				return false, false
			}
			if !s {
				return false, true
			}
		}
		return true, true
	case uint64, bool, string:
		switch b.(type) {
		case uint64, bool, string:
			return sameVal(a, b), true
		}
		return false, false
	}
	return false, false
}

func init() {
	externals["unique.Make"] = func(fr *frame, args []value) value {
		typ := ""
		if ta := fr.fn.TypeArgs(); len(ta) > 0 {
			typ = ta[0].String()
		}
		tp, _ := uniqTabs.LoadOrStore(fr.w, new([]uniqEntry))
		tab := tp.(*[]uniqEntry)
		for _, e := range *tab {
			if e.typ != typ {
				continue
			}
			same, ok := uniqSame(e.v, args[0])
			if !ok {
				panic(engineError{"unique.Make: unsupported (symbolic or reference) value of type " + typ})
			}
			if same {
				return structure{e.p}
			}
		}
		if _, ok := uniqSame(args[0], args[0]); !ok {
			panic(engineError{"unique.Make: unsupported (symbolic or reference) value of type " + typ})
		}
		p := new(value)
		*p = copyVal(args[0])
		*tab = append(*tab, uniqEntry{typ, copyVal(args[0]), p})
		return structure{p}
	}
}
