package main

// Cooperative target goroutines (one host goroutine each, exactly one runs at a time),
// channels, select, and the scheduling decision which is a forked symbolic choice.

import (
	"fmt"
	"go/token"
	"go/types"

	"golang.org/x/tools/go/ssa"
)

type thread struct {
	id        int
	resume    chan struct{}
	exited    chan struct{}
	done      bool
	blockedOn func() bool // nil = runnable
	what      string
	name      string
}

type sched struct {
	threads  []*thread
	cur      *thread
	killing  bool
	abort    any // abort raised in a non-main thread, to be re-raised in main
	points   int
	maxPts   int
	deadlock string
	preemptions int
}

type channel struct {
	buf     []value
	cap     int
	closed  bool
	recvq   int // threads parked receiving (for non-blocking send on unbuffered channels)
	handoff bool
	epoch   int64
	id      int
}

func (w *World) newChan(n int) *channel {
	return &channel{cap: n, epoch: w.epochID}
}

func (w *World) chanTouch(c *channel) {
	if !w.logging || c.epoch == w.epochID {
		return
	}
	old := *c
	old.buf = append([]value(nil), c.buf...)
	prev := c.epoch
	c.epoch = w.epochID
	w.mapUndo = append(w.mapUndo, func() { *c = old; c.epoch = prev })
}

func (w *World) resetSched() {
	main := &thread{id: 0, resume: make(chan struct{}), exited: make(chan struct{}), name: "main"}
	w.sched = &sched{threads: []*thread{main}, cur: main, maxPts: w.h.MaxSchedPoints}
}

func (s *sched) enabled() []*thread {
	var en []*thread
	for _, t := range s.threads {
		if t.done {
			continue
		}
		if t.blockedOn == nil || t.blockedOn() {
			en = append(en, t)
		}
	}
	return en
}

// schedPoint lets the scheduler pick the next thread to run among the enabled ones.
func (w *World) schedPoint(what string) {
	s := w.sched
	if len(s.threads) == 1 && s.cur.blockedOn == nil {
		return
	}
	if w.inInit > 0 {
		return // lazily run package initialisers are not part of the schedule (they run once per worker)
	}
	me := s.cur
	en := s.enabled()
	if len(en) == 0 {
		w.allBlocked(what)
	}
	s.points++
	if s.maxPts > 0 && s.points > s.maxPts {
		w.run.inconclusive = append(w.run.inconclusive, fmt.Sprintf("BOUND-HIT: more than %d scheduling points", s.maxPts))
		panic(pathEnd{"sched-bound"})
	}
	// preemption bounding (CHESS): the running thread is enabled here, so switching away is a preemption;
	// once the budget is used up the thread keeps running until it blocks or exits
	if w.h.MaxPreemptions >= 0 && s.preemptions >= w.h.MaxPreemptions {
		return
	}
	k := 0
	if len(en) > 1 {
		w.run.schedDependent = true
		k = w.chooseN(len(en), "sched")
	}
	next := en[k]
	if next == me {
		return
	}
	s.preemptions++
	w.switchTo(next)
}

// switchTo hands the baton to next and parks the current thread until it is resumed.
func (w *World) switchTo(next *thread) {
	s := w.sched
	me := s.cur
	s.cur = next
	next.resume <- struct{}{}
	<-me.resume
	w.afterResume(me)
}

func (w *World) afterResume(me *thread) {
	s := w.sched
	if s.killing {
		panic(killThread{})
	}
	if me.id == 0 && s.abort != nil {
		a := s.abort
		s.abort = nil
		panic(a)
	}
}

// allBlocked: no thread can run.
func (w *World) allBlocked(what string) {
	s := w.sched
	desc := ""
	for _, t := range s.threads {
		if !t.done {
			desc += fmt.Sprintf("[%s blocked in %s] ", t.name, t.what)
		}
	}
	w.run.blocked = desc
	if w.run.deadlockIsViolation {
		w.violate("deadlock", "all goroutines blocked: "+desc, "", w.run.witness)
	}
	panic(pathEnd{"blocked: " + desc})
}

// block parks the current thread until pred holds.
func (w *World) block(pred func() bool, what string) {
	if pred() {
		return
	}
	s := w.sched
	me := s.cur
	me.blockedOn = pred
	me.what = what
	for !pred() {
		en := s.enabled()
		if len(en) == 0 {
			w.allBlocked(what)
		}
		s.points++
		if s.maxPts > 0 && s.points > s.maxPts {
			w.run.inconclusive = append(w.run.inconclusive, fmt.Sprintf("BOUND-HIT: more than %d scheduling points", s.maxPts))
			panic(pathEnd{"sched-bound"})
		}
		k := 0
		if len(en) > 1 {
			k = w.chooseN(len(en), "sched")
		}
		if en[k] == me {
			break
		}
		w.switchTo(en[k])
	}
	me.blockedOn = nil
	me.what = ""
}

func (w *World) spawn(fr *frame, pos token.Pos, fn value, args []value) *thread {
	s := w.sched
	t := &thread{id: len(s.threads), resume: make(chan struct{}), exited: make(chan struct{})}
	t.name = fmt.Sprintf("g%d", t.id)
	s.threads = append(s.threads, t)
	if len(s.threads) > w.h.MaxThreads {
		w.run.inconclusive = append(w.run.inconclusive, "BOUND-HIT: too many goroutines")
		panic(pathEnd{"thread-bound"})
	}
	go func() {
		defer close(t.exited)
		<-t.resume
		defer func() {
			p := recover()
			t.done = true
			if _, ok := p.(killThread); ok || s.killing {
				return
			}
			if p != nil {
				if tp, ok := p.(targetPanic); ok && !tp.goexit {
					// unrecovered panic in a goroutine crashes the program
					p = violationAbortFor(w, tp)
				} else if ok {
					p = nil
				}
			}
			if p != nil {
				s.abort = p
				s.cur = s.threads[0]
				s.threads[0].blockedOn = nil
				s.threads[0].resume <- struct{}{}
				return
			}
			// normal exit: pass the baton
			w.threadExit(t)
		}()
		if s.killing {
			panic(killThread{})
		}
		w.call(nil, pos, fn, args)
	}()
	w.schedPoint("go")
	return t
}

func violationAbortFor(w *World, tp targetPanic) any {
	defer func() { recover() }()
	v := &Violation{Harness: w.h.Name, Kind: "panic", Label: panicText(tp), Where: tp.where, Model: w.run.witness,
		Inputs: append([]InputRec(nil), w.run.inputs...), Trail: append([]dec(nil), w.run.taken...)}
	return violationAbort{v}
}

// threadExit runs on an exiting thread's host goroutine: choose who continues.
func (w *World) threadExit(t *thread) {
	s := w.sched
	defer func() {
		// a decision made here may abort the path (pathEnd etc.): forward to main
		if p := recover(); p != nil {
			if _, ok := p.(killThread); ok {
				return
			}
			s.abort = p
			s.cur = s.threads[0]
			s.threads[0].resume <- struct{}{}
		}
	}()
	en := s.enabled()
	if len(en) == 0 {
		// everyone else is blocked: deadlock, reported by main
		desc := ""
		for _, x := range s.threads {
			if !x.done {
				desc += fmt.Sprintf("[%s blocked in %s] ", x.name, x.what)
			}
		}
		w.run.blocked = desc
		if w.run.deadlockIsViolation {
			w.violate("deadlock", "all goroutines blocked: "+desc, "", w.run.witness)
		}
		panic(pathEnd{"blocked: " + desc})
	}
	k := 0
	if len(en) > 1 {
		k = w.chooseN(len(en), "sched")
	}
	s.cur = en[k]
	en[k].resume <- struct{}{}
}

// killThreads unwinds every parked thread at the end of a path (called on the main thread).
func (w *World) killThreads() {
	s := w.sched
	if s == nil {
		return
	}
	s.killing = true
	for _, t := range s.threads[1:] {
		if t.done {
			<-t.exited
			continue
		}
		select {
		case t.resume <- struct{}{}:
		case <-t.exited:
		}
		<-t.exited
	}
}

// ---------------------------------------------------------------------
// channel operations

func (w *World) chanSend(fr *frame, pos token.Pos, cv value, v value) {
	c := cv.(*channel)
	if c == nil {
		w.block(func() bool { return false }, "send on nil channel")
	}
	w.schedPoint("send")
	if c.closed {
		panic(targetPanic{v: iface{w.runtimeErrorT, "send on closed channel"}, where: w.where(fr, pos)})
	}
	w.chanTouch(c)
	if c.cap > 0 {
		w.block(func() bool { return c.closed || len(c.buf) < c.cap }, "chan send")
		if c.closed {
			panic(targetPanic{v: iface{w.runtimeErrorT, "send on closed channel"}, where: w.where(fr, pos)})
		}
		w.chanTouch(c)
		c.buf = append(c.buf, copyVal(v))
		return
	}
	// unbuffered: hand off and wait until taken
	w.block(func() bool { return c.closed || !c.handoff }, "chan send")
	if c.closed {
		panic(targetPanic{v: iface{w.runtimeErrorT, "send on closed channel"}, where: w.where(fr, pos)})
	}
	w.chanTouch(c)
	c.buf = append(c.buf, copyVal(v))
	c.handoff = true
	w.block(func() bool { return !c.handoff || c.closed }, "chan send (rendezvous)")
}

func (w *World) chanRecvReady(c *channel) bool { return len(c.buf) > 0 || c.closed }

func (w *World) chanTake(c *channel, elemT types.Type) (value, bool) {
	w.chanTouch(c)
	if len(c.buf) > 0 {
		v := c.buf[0]
		c.buf = append([]value(nil), c.buf[1:]...)
		if c.cap == 0 {
			c.handoff = false
		}
		return v, true
	}
	return zero(elemT), false // closed
}

func (w *World) chanRecv(fr *frame, instr *ssa.UnOp, cv value) value {
	c := cv.(*channel)
	if c == nil {
		w.block(func() bool { return false }, "receive from nil channel")
	}
	w.schedPoint("recv")
	elemT := instr.X.Type().Underlying().(*types.Chan).Elem()
	if !w.chanRecvReady(c) {
		w.chanTouch(c)
		c.recvq++
		w.block(func() bool { return w.chanRecvReady(c) }, "chan receive")
		c.recvq--
	}
	v, ok := w.chanTake(c, elemT)
	if instr.CommaOk {
		return tuple{v, ok}
	}
	return v
}

func (w *World) chanClose(fr *frame, pos token.Pos, cv value) {
	c := cv.(*channel)
	if c == nil {
		panic(targetPanic{v: iface{w.runtimeErrorT, "close of nil channel"}, where: w.where(fr, pos)})
	}
	if c.closed {
		panic(targetPanic{v: iface{w.runtimeErrorT, "close of closed channel"}, where: w.where(fr, pos)})
	}
	w.schedPoint("close")
	if c.closed {
		panic(targetPanic{v: iface{w.runtimeErrorT, "close of closed channel"}, where: w.where(fr, pos)})
	}
	w.chanTouch(c)
	c.closed = true
}

func (w *World) selectOp(fr *frame, instr *ssa.Select) value {
	w.schedPoint("select")
	type st struct {
		c    *channel
		send bool
		v    value
	}
	states := make([]st, len(instr.States))
	for i, s := range instr.States {
		c, _ := fr.get(s.Chan).(*channel)
		states[i] = st{c: c, send: s.Dir == types.SendOnly}
		if states[i].send {
			states[i].v = fr.get(s.Send)
		}
	}
	ready := func() []int {
		var r []int
		for i, s := range states {
			if s.c == nil {
				continue
			}
			if s.send {
				if s.c.closed || (s.c.cap > 0 && len(s.c.buf) < s.c.cap) || (s.c.cap == 0 && !s.c.handoff && s.c.recvq > 0) {
					r = append(r, i)
				}
			} else if w.chanRecvReady(s.c) {
				r = append(r, i)
			}
		}
		return r
	}
	rd := ready()
	if len(rd) == 0 {
		if !instr.Blocking {
			return w.selectResult(instr, -1, nil, false)
		}
		for _, s := range states {
			if s.c != nil && !s.send {
				w.chanTouch(s.c)
				s.c.recvq++
			}
		}
		w.block(func() bool { return len(ready()) > 0 }, "select")
		for _, s := range states {
			if s.c != nil && !s.send {
				s.c.recvq--
			}
		}
		rd = ready()
	}
	k := 0
	if len(rd) > 1 {
		k = w.chooseN(len(rd), "select")
	}
	chosen := rd[k]
	s := states[chosen]
	if s.send {
		if s.c.closed {
			panic(targetPanic{v: iface{w.runtimeErrorT, "send on closed channel"}, where: w.where(fr, instr.Pos())})
		}
		w.chanTouch(s.c)
		s.c.buf = append(s.c.buf, copyVal(s.v))
		if s.c.cap == 0 {
			s.c.handoff = true
		}
		return w.selectResult(instr, chosen, nil, false)
	}
	elemT := instr.States[chosen].Chan.Type().Underlying().(*types.Chan).Elem()
	v, ok := w.chanTake(s.c, elemT)
	return w.selectResult(instr, chosen, v, ok)
}

func (w *World) selectResult(instr *ssa.Select, chosen int, recv value, recvOk bool) value {
	r := tuple{uint64(int64(chosen)), recvOk}
	for i, st := range instr.States {
		if st.Dir == types.RecvOnly {
			var v value
			if i == chosen && recvOk {
				v = recv
			} else {
				v = zero(st.Chan.Type().Underlying().(*types.Chan).Elem())
			}
			r = append(r, v)
		}
	}
	return r
}
