package main

// SSA interpreter over the symbolic value domain. Structure adapted from
// golang.org/x/tools/go/ssa/interp (BSD licence, The Go Authors).

import (
	"fmt"
	"go/token"
	"go/types"
	"os"
	"slices"
	"strings"

	"golang.org/x/tools/go/ssa"
)

type continuation int

const (
	kNext continuation = iota
	kReturn
	kJump
)

// targetPanic is a Go-level panic of the interpreted program.
type targetPanic struct {
	v     value
	where string
	goexit bool
}

// pathEnd terminates the current path (not an error).
type pathEnd struct{ reason string }

// killThread unwinds a parked target goroutine when its path is over.
type killThread struct{}

type deferred struct {
	fn    value
	args  []value
	instr *ssa.Defer
	tail  *deferred
}

type frame struct {
	w                *World
	caller           *frame
	fn               *ssa.Function
	block, prevBlock *ssa.BasicBlock
	env              map[ssa.Value]value
	locals           []value
	defers           *deferred
	result           value
	panicking        bool
	panic            any
	phitemps         []value
	callpos          token.Pos
}

func (fr *frame) get(key ssa.Value) value {
	switch key := key.(type) {
	case nil:
		return nil
	case *ssa.Function, *ssa.Builtin:
		return key
	case *ssa.Const:
		return constValue(key)
	case *ssa.Global:
		return fr.w.globalAddr(key)
	}
	if r, ok := fr.env[key]; ok {
		return r
	}
	panic(engineError{fmt.Sprintf("get: no value for %T: %v in %s", key, key.Name(), fr.fn)})
}

func isAbort(p any) bool {
	switch p.(type) {
	case pathEnd, killThread, engineError, violationAbort:
		return true
	}
	return false
}

func (fr *frame) runDefer(d *deferred) {
	var ok bool
	defer func() {
		if !ok {
			p := recover()
			if isAbort(p) {
				panic(p)
			}
			fr.panicking = true
			fr.panic = p
		}
	}()
	fr.w.call(fr, d.instr.Pos(), d.fn, d.args)
	ok = true
}

func (fr *frame) runDefers() {
	for d := fr.defers; d != nil; d = fr.defers {
		fr.defers = d.tail
		fr.runDefer(d)
	}
	fr.defers = nil
	if fr.panicking {
		panic(fr.panic)
	}
}

func (w *World) lookupMethod(typ types.Type, meth *types.Func) *ssa.Function {
	return w.prog.LookupMethod(typ, meth.Pkg(), meth.Name())
}

func (w *World) where(fr *frame, pos token.Pos) string {
	if pos == token.NoPos && fr != nil {
		pos = fr.callpos
	}
	s := ""
	if fr != nil {
		s = fr.fn.String()
	}
	if pos != token.NoPos {
		p := w.prog.Fset.Position(pos)
		s += fmt.Sprintf(" (%s:%d)", shortPath(p.Filename), p.Line)
	}
	return s
}

func shortPath(p string) string {
	if i := strings.Index(p, "/repo/"); i >= 0 {
		return p[i+6:]
	}
	if i := strings.LastIndex(p, "/src/"); i >= 0 {
		return p[i+5:]
	}
	return p
}

// rtPanic raises a Go run-time panic in the target program.
func (w *World) rtPanic(fr *frame, pos token.Pos, msg string) {
	panic(targetPanic{v: iface{w.runtimeErrorT, "runtime error: " + msg}, where: w.where(fr, pos)})
}

// gNonTermViolation: check json "nontermination_is_violation".
var gNonTermViolation bool

func (w *World) visitInstr(fr *frame, instr ssa.Instruction) continuation {
	w.steps++
	if w.steps-w.pathSteps0 > maxPathSteps && w.run != nil && w.logging {
		// a single path that executes this many instructions does not terminate for practical purposes
		// (e.g. a concrete endless loop in the code under test): inconclusive instead of hanging the run
		w.pathSteps0 = w.steps
		if gNonTermViolation {
			w.violate("nontermination", fmt.Sprintf("path executed more than %d SSA instructions without terminating", int64(maxPathSteps)), w.where(fr, instr.Pos()), w.run.witness)
		}
		w.run.inconclusive = append(w.run.inconclusive, fmt.Sprintf("BOUND-HIT: path executed more than %d SSA instructions (endless loop?) at %s", int64(maxPathSteps), w.where(fr, instr.Pos())))
		panic(pathEnd{"bound-hit"})
	}
	switch instr := instr.(type) {
	case *ssa.DebugRef:

	case *ssa.UnOp:
		if w.h.SchedGlobals && instr.Op == token.MUL {
			w.schedAtGlobal(instr.X, "global-load")
		}
		fr.env[instr] = w.unop(fr, instr, fr.get(instr.X))

	case *ssa.BinOp:
		fr.env[instr] = w.binop(fr, instr.Pos(), instr.Op, instr.X.Type(), instr.Y.Type(), fr.get(instr.X), fr.get(instr.Y))

	case *ssa.Call:
		if w.inInit > 0 && fr.caller == nil && w.skipTestInitCall(fr, instr) {
			// initialisers of the package's own (non-harness) test files are not run: harnesses build their own state
			fr.env[instr] = zeroOrNil(instr.Type())
			break
		}
		fn, args := w.prepareCall(fr, &instr.Call)
		fr.env[instr] = w.call(fr, instr.Pos(), fn, args)

	case *ssa.ChangeInterface:
		fr.env[instr] = fr.get(instr.X)

	case *ssa.ChangeType:
		fr.env[instr] = fr.get(instr.X)

	case *ssa.Convert:
		fr.env[instr] = w.conv(fr, instr.Pos(), instr.Type(), instr.X.Type(), fr.get(instr.X))

	case *ssa.MultiConvert:
		fr.env[instr] = w.conv(fr, instr.Pos(), instr.Type(), instr.X.Type(), fr.get(instr.X))

	case *ssa.SliceToArrayPointer:
		fr.env[instr] = w.sliceToArrayPointer(fr, instr, fr.get(instr.X))

	case *ssa.MakeInterface:
		fr.env[instr] = iface{t: instr.X.Type(), v: fr.get(instr.X)}

	case *ssa.Extract:
		fr.env[instr] = fr.get(instr.Tuple).(tuple)[instr.Index]

	case *ssa.Slice:
		fr.env[instr] = w.slice(fr, instr, fr.get(instr.X), fr.get(instr.Low), fr.get(instr.High), fr.get(instr.Max))

	case *ssa.Return:
		switch len(instr.Results) {
		case 0:
		case 1:
			fr.result = fr.get(instr.Results[0])
		default:
			var res []value
			for _, r := range instr.Results {
				res = append(res, fr.get(r))
			}
			fr.result = tuple(res)
		}
		fr.block = nil
		return kReturn

	case *ssa.RunDefers:
		fr.runDefers()

	case *ssa.Panic:
		panic(targetPanic{v: fr.get(instr.X), where: w.where(fr, instr.Pos())})

	case *ssa.Send:
		w.chanSend(fr, instr.Pos(), fr.get(instr.Chan), fr.get(instr.X))

	case *ssa.Store:
		if w.h.SchedGlobals {
			w.schedAtGlobal(instr.Addr, "global-store")
		}
		w.storeTo(fr, instr.Pos(), mustDeref(instr.Addr.Type()), fr.get(instr.Addr), fr.get(instr.Val))

	case *ssa.If:
		succ := 1
		if w.truth(fr.get(instr.Cond)) {
			succ = 0
		}
		fr.prevBlock, fr.block = fr.block, fr.block.Succs[succ]
		return kJump

	case *ssa.Jump:
		fr.prevBlock, fr.block = fr.block, fr.block.Succs[0]
		return kJump

	case *ssa.Defer:
		fn, args := w.prepareCall(fr, &instr.Call)
		defers := &fr.defers
		if instr.DeferStack != nil {
			if into := fr.get(instr.DeferStack); into != nil {
				defers = into.(**deferred)
			}
		}
		*defers = &deferred{fn: fn, args: args, instr: instr, tail: *defers}

	case *ssa.Go:
		fn, args := w.prepareCall(fr, &instr.Call)
		w.spawn(fr, instr.Pos(), fn, args)

	case *ssa.MakeChan:
		n := w.concreteInt(fr, fr.get(instr.Size), instr.Size.Type(), 64)
		fr.env[instr] = w.newChan(int(n))

	case *ssa.Alloc:
		var addr *value
		if instr.Heap {
			addr = new(value)
			fr.env[instr] = addr
		} else {
			addr = fr.env[instr].(*value)
		}
		*addr = zero(mustDeref(instr.Type()))

	case *ssa.MakeSlice:
		capv := w.concreteLen(fr, instr.Pos(), fr.get(instr.Cap), instr.Cap.Type(), "makeslice: cap out of range")
		lenv := w.concreteLen(fr, instr.Pos(), fr.get(instr.Len), instr.Len.Type(), "makeslice: len out of range")
		if lenv > capv {
			w.rtPanic(fr, instr.Pos(), "makeslice: len out of range")
		}
		tElt := instr.Type().Underlying().(*types.Slice).Elem()
		sl := make([]value, capv)
		for i := range sl {
			sl[i] = zero(tElt)
		}
		fr.env[instr] = sl[:lenv]

	case *ssa.MakeMap:
		fr.env[instr] = newOMap(instr.Type().Underlying().(*types.Map))

	case *ssa.Range:
		fr.env[instr] = w.rangeIter(fr, instr, fr.get(instr.X))

	case *ssa.Next:
		fr.env[instr] = fr.get(instr.Iter).(iter).next(w, fr)

	case *ssa.FieldAddr:
		fr.env[instr] = w.fieldAddr(fr, instr.Pos(), fr.get(instr.X), instr.Field)

	case *ssa.Field:
		fr.env[instr] = fr.get(instr.X).(structure)[instr.Field]

	case *ssa.IndexAddr:
		fr.env[instr] = w.indexAddr(fr, instr, fr.get(instr.X), fr.get(instr.Index))

	case *ssa.Index:
		fr.env[instr] = w.index(fr, instr, fr.get(instr.X), fr.get(instr.Index))

	case *ssa.Lookup:
		fr.env[instr] = w.lookup(fr, instr, fr.get(instr.X), fr.get(instr.Index))

	case *ssa.MapUpdate:
		m := fr.get(instr.Map).(*omap)
		if m == nil {
			panic(targetPanic{v: iface{w.runtimeErrorT, "assignment to entry in nil map"}, where: w.where(fr, instr.Pos())})
		}
		w.mapUpdate(fr, m, fr.get(instr.Key), fr.get(instr.Value))

	case *ssa.TypeAssert:
		fr.env[instr] = w.typeAssert(fr, instr, fr.get(instr.X).(iface))

	case *ssa.MakeClosure:
		var bindings []value
		for _, binding := range instr.Bindings {
			bindings = append(bindings, fr.get(binding))
		}
		fr.env[instr] = &closure{instr.Fn.(*ssa.Function), bindings}

	case *ssa.Phi:
		panic(engineError{"unreachable phi"})

	case *ssa.Select:
		fr.env[instr] = w.selectOp(fr, instr)

	default:
		panic(engineError{fmt.Sprintf("unexpected instruction: %T", instr)})
	}
	return kNext
}

func mustDeref(t types.Type) types.Type {
	if p, ok := t.Underlying().(*types.Pointer); ok {
		return p.Elem()
	}
	panic(engineError{fmt.Sprintf("mustDeref: not a pointer: %s", t)})
}

func (w *World) prepareCall(fr *frame, call *ssa.CallCommon) (fn value, args []value) {
	v := fr.get(call.Value)
	if call.Method == nil {
		fn = v
	} else {
		recv := v.(iface)
		if _, ok := recv.v.(rtypeStub); ok {
			return hostFunc(func(fr *frame, args []value) value { return recv }), nil
		}
		if recv.t == nil {
			w.rtPanic(fr, call.Pos(), "invalid memory address or nil pointer dereference (method call on nil interface)")
		}
		f := w.lookupMethod(recv.t, call.Method)
		if f == nil {
			panic(engineError{fmt.Sprintf("method set for dynamic type %v does not contain %s", recv.t, call.Method)})
		}
		fn = f
		args = append(args, recv.v)
	}
	for _, arg := range call.Args {
		args = append(args, fr.get(arg))
	}
	return
}

func (w *World) call(caller *frame, callpos token.Pos, fn value, args []value) value {
	switch fn := fn.(type) {
	case *ssa.Function:
		if fn == nil {
			w.rtPanic(caller, callpos, "invalid memory address or nil pointer dereference (call of nil func)")
		}
		return w.callSSA(caller, callpos, fn, args, nil)
	case *closure:
		return w.callSSA(caller, callpos, fn.Fn, args, fn.Env)
	case *ssa.Builtin:
		return w.callBuiltin(caller, callpos, fn, args)
	case hostFunc:
		return fn(caller, args)
	}
	panic(engineError{fmt.Sprintf("cannot call %T", fn)})
}

func (w *World) callSSA(caller *frame, callpos token.Pos, fn *ssa.Function, args []value, env []value) value {
	if fn.Pkg != nil {
		if isPackageInit(fn) {
			if !w.initDirect {
				return nil // dependencies are initialised lazily on first use
			}
			w.initDirect = false
		} else if !w.pkgInitDone[fn.Pkg] {
			w.ensureInit(fn.Pkg)
		}
	}
	fr := &frame{w: w, caller: caller, fn: fn, callpos: callpos}
	w.depth++
	if w.depth > 2000 {
		panic(engineError{"call depth > 2000 in " + fn.String()})
	}
	defer func() { w.depth-- }()
	if fn.Parent() == nil {
		name := fnExternName(fn)
		if ext := externals[name]; ext != nil {
			r := ext(fr, args)
			if _, real := r.(useRealCode); !real && r != extDecline { // an external may decline (extern_html.go, extern_textid.go)
				return r
			}
		}
		if fn.Pkg == nil && fn.Origin() == nil && fn.Blocks == nil {
			// synthetic wrapper without body
		}
		if h := w.harnessCall(fr, fn, args); h != nil {
			return h.v
		}
		if fn.Blocks == nil {
			if fn.Pkg != nil {
				buildPackage(fn.Pkg)
			}
			if fn.Blocks == nil {
				if w.inInit > 0 && fn.Signature.Results().Len() == 0 {
					return nil // bodiless runtime hook without results, called from a package initialiser
				}
				panic(engineError{"no code for function: " + name + " (needs an intrinsic)"})
			}
		}
	}
	if fn.TypeParams().Len() > 0 && len(fn.TypeArgs()) == 0 {
		panic(engineError{"uninstantiated generic function " + fn.String()})
	}
	if w.funcs != nil {
		w.funcs[fn]++
	}
	// environments are recycled (the SSA value → value map of a finished frame is dead: closures copy their bindings)
	if n := len(w.envPool); n > 0 && w.sched != nil && len(w.sched.threads) == 1 {
		fr.env = w.envPool[n-1]
		w.envPool = w.envPool[:n-1]
	} else {
		fr.env = make(map[ssa.Value]value, 16)
	}
	fr.block = fn.Blocks[0]
	fr.locals = make([]value, len(fn.Locals))
	for i, l := range fn.Locals {
		fr.locals[i] = zero(mustDeref(l.Type()))
		fr.env[l] = &fr.locals[i]
	}
	for i, p := range fn.Params {
		fr.env[p] = args[i]
	}
	for i, fv := range fn.FreeVars {
		fr.env[fv] = env[i]
	}
	for fr.block != nil {
		w.runFrame(fr)
	}
	if len(fr.env) <= 64 && len(w.envPool) < 256 && w.sched != nil && len(w.sched.threads) == 1 {
		clear(fr.env)
		w.envPool = append(w.envPool, fr.env)
	}
	fr.env = nil
	return fr.result
}

func (w *World) runFrame(fr *frame) {
	defer func() {
		if fr.block == nil {
			return // normal return
		}
		p := recover()
		if isAbort(p) {
			panic(p)
		}
		if _, ok := p.(targetPanic); !ok {
			// interpreter bug or host runtime error: report as engine error with location
			chain := ""
			for c, n := fr.caller, 0; c != nil && n < 12; c, n = c.caller, n+1 {
				chain += " <- " + c.fn.String()
			}
			panic(engineError{fmt.Sprintf("internal: %v in %s block %d%s", p, fr.fn, fr.block.Index, chain) + "\n" + string(stack())})
		}
		fr.panicking = true
		fr.panic = p
		fr.runDefers()
		fr.block = fr.fn.Recover
		if fr.block == nil {
			// recovered, no named results: return zero values
			fr.result = zeroResult(fr.fn)
		}
	}()

	for {
		nonPhis := executePhis(fr)
		for _, instr := range nonPhis {
			if gTrace {
				fmt.Fprintf(os.Stderr, "%s\t%v\n", fr.fn.Name(), instr)
			}
			if w.visitInstr(fr, instr) == kReturn {
				return
			}
		}
	}
}

func zeroResult(fn *ssa.Function) value {
	res := fn.Signature.Results()
	switch res.Len() {
	case 0:
		return nil
	case 1:
		return zero(res.At(0).Type())
	}
	return zero(res)
}

func executePhis(fr *frame) []ssa.Instruction {
	firstNonPhi := -1
	for i, instr := range fr.block.Instrs {
		if _, ok := instr.(*ssa.Phi); !ok {
			firstNonPhi = i
			break
		}
	}
	nonPhis := fr.block.Instrs[firstNonPhi:]
	if firstNonPhi > 0 {
		phis := fr.block.Instrs[:firstNonPhi]
		predIndex := slices.Index(fr.block.Preds, fr.prevBlock)
		fr.phitemps = fr.phitemps[:0]
		for _, phi := range phis {
			phi := phi.(*ssa.Phi)
			fr.phitemps = append(fr.phitemps, fr.get(phi.Edges[predIndex]))
		}
		for i, phi := range phis {
			fr.env[phi.(*ssa.Phi)] = fr.phitemps[i]
		}
	}
	return nonPhis
}

// doRecover implements the recover() built-in.
func (w *World) doRecover(caller *frame) value {
	if caller != nil && !caller.panicking && caller.caller != nil && caller.caller.panicking {
		p := caller.caller.panic
		tp, ok := p.(targetPanic)
		if !ok {
			panic(engineError{fmt.Sprintf("unexpected panic type %T in recover()", p)})
		}
		if tp.goexit {
			return iface{}
		}
		caller.caller.panicking = false
		caller.caller.panic = nil
		if ifv, ok := tp.v.(iface); ok {
			return ifv
		}
		panic(engineError{fmt.Sprintf("panic value is not an interface: %T", tp.v)})
	}
	return iface{}
}
