package main

import "sync"

// sync.Once objects completed while a package initialiser runs (w.inInit > 0) stay completed for every later
// path of the same worker: the heap writes of initialisers are not rolled back, but the per-run sync state
// (onceState) is, so without this a lazily built table that an init() has already built eagerly would be built
// again on every path. Keys are heap cells of one worker's heap, so workers never share an entry.
// Used by harness/internal/http3/zz_verif_init.go (QPACK static table maps, header-name maps, Huffman tree).
var initOnceDone sync.Map

func init() {
	externals["(*sync.Once).Do"] = func(fr *frame, args []value) value {
		p, _ := args[0].(*value)
		if p != nil {
			if _, ok := initOnceDone.Load(p); ok {
				return nil
			}
		}
		r := extOnceDo(fr, args)
		if p != nil && fr.w.inInit > 0 {
			initOnceDone.Store(p, true)
		}
		return r
	}
}
