package main

// Minimal timer model: a timer may fire at any moment, and "at once" is one legal behaviour; the channel returned
// by time.After is ready immediately (other goroutines still interleave at the select/receive scheduling point).
// This under-approximates late firings and is stated in DESIGN.md (amendment A1).

func init() {
	externals["time.After"] = func(fr *frame, args []value) value {
		w := fr.w
		c := w.newChan(1)
		c.buf = append(c.buf, w.abstractNow())
		return c
	}
	externals["time.Tick"] = func(fr *frame, args []value) value {
		unsupported("time.Tick")
		return nil
	}
	externals["(*sync.Cond).Signal"] = func(fr *frame, args []value) value {
		fr.w.schedPoint("signal")
		return extCondSignal(fr, args)
	}
	externals["(*sync.Cond).Broadcast"] = func(fr *frame, args []value) value {
		fr.w.schedPoint("broadcast")
		return extCondBroadcast(fr, args)
	}
	externals["(*sync/atomic.Value).Load"] = func(fr *frame, args []value) value {
		fr.w.schedPoint("atomic")
		p := args[0].(*value)
		return (*p).(structure)[0]
	}
}
