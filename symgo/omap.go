package main

// Insertion-ordered maps with support for keys containing symbolic scalars.
// Iteration order is deterministic (insertion order), which re-execution needs.

import (
	"fmt"
	"go/types"
	"math"
	"unsafe"

	"golang.org/x/tools/go/ssa"
)

type mapEntry struct {
	k, v    value
	deleted bool
	symKey  bool
}

type omap struct {
	kt, vt  types.Type
	entries []mapEntry
	index   map[any][]int // concrete-key hash → entry indices
	live    int
	nsym    int // live entries with symbolic keys
	epoch   int64
}

func newOMap(t *types.Map) *omap {
	return &omap{kt: t.Key(), vt: t.Elem(), index: map[any][]int{}, epoch: -1}
}

func (m *omap) len() int { return m.live }

// hashKey returns a Go-comparable digest for a fully concrete key, ok=false if the key has symbolic parts.
func hashKey(k value) (any, bool) {
	switch k := k.(type) {
	case bool, uint64, string, float64, float32, *value, *channel, complex128:
		return k, true
	case *Term, *symstr, *symptr:
		return nil, false
	case structure:
		return hashSeq([]value(k))
	case array:
		return hashSeq([]value(k))
	case iface:
		if k.t == nil {
			return "nil-iface", true
		}
		h, ok := hashKey(k.v)
		if !ok {
			return nil, false
		}
		return fmt.Sprintf("%s|%v", k.t.String(), h), true
	case *ssa.Function:
		return k, true
	}
	panic(engineError{fmt.Sprintf("unhashable map key %T", k)})
}

func hashSeq(vs []value) (any, bool) {
	s := ""
	for _, v := range vs {
		h, ok := hashKey(v)
		if !ok {
			return nil, false
		}
		switch hv := h.(type) {
		case *value:
			s += fmt.Sprintf("p%x,", uintptr(unsafe.Pointer(hv)))
		case float64:
			s += fmt.Sprintf("f%x,", math.Float64bits(hv))
		case string:
			s += fmt.Sprintf("s%d:%s,", len(hv), hv)
		default:
			s += fmt.Sprintf("%T%v,", hv, hv)
		}
	}
	return s, true
}

// saveForUndo snapshots the map the first time it is mutated in a run.
func (w *World) mapTouch(m *omap) {
	if !w.logging || m.epoch == w.epochID {
		return
	}
	old := *m
	old.entries = append([]mapEntry(nil), m.entries...)
	oldIndex := make(map[any][]int, len(m.index))
	for k, v := range m.index {
		oldIndex[k] = append([]int(nil), v...)
	}
	old.index = oldIndex
	prevEpoch := m.epoch
	m.epoch = w.epochID
	w.mapUndo = append(w.mapUndo, func() {
		*m = old
		m.epoch = prevEpoch
	})
}

// getExact looks up a key that is identical (not merely equal under the solver) to a stored key.
func (m *omap) getExact(k value) (value, bool) {
	if h, ok := hashKey(k); ok {
		for _, i := range m.index[h] {
			e := &m.entries[i]
			if !e.deleted {
				return e.v, true
			}
		}
		return nil, false
	}
	for i := range m.entries {
		e := &m.entries[i]
		if !e.deleted && e.symKey && sameKey(e.k, k) {
			return e.v, true
		}
	}
	return nil, false
}

func sameKey(a, b value) bool {
	switch av := a.(type) {
	case *Term:
		bv, ok := b.(*Term)
		return ok && av == bv
	case *symstr:
		bv, ok := b.(*symstr)
		if !ok || len(av.b) != len(bv.b) {
			return false
		}
		for i := range av.b {
			if !sameKey(av.b[i], bv.b[i]) {
				return false
			}
		}
		return true
	case structure:
		bv, ok := b.(structure)
		if !ok {
			return false
		}
		for i := range av {
			if !sameKey(av[i], bv[i]) {
				return false
			}
		}
		return true
	case array:
		bv, ok := b.(array)
		if !ok {
			return false
		}
		for i := range av {
			if !sameKey(av[i], bv[i]) {
				return false
			}
		}
		return true
	case iface:
		bv, ok := b.(iface)
		if !ok || (av.t == nil) != (bv.t == nil) {
			return false
		}
		if av.t == nil {
			return true
		}
		return types.Identical(av.t, bv.t) && sameKey(av.v, bv.v)
	}
	h1, ok1 := hashKey(a)
	h2, ok2 := hashKey(b)
	return ok1 && ok2 && h1 == h2
}

func (m *omap) liveKeys() []value {
	keys := make([]value, 0, m.live)
	for i := range m.entries {
		if !m.entries[i].deleted {
			keys = append(keys, m.entries[i].k)
		}
	}
	return keys
}

// find returns the index of the entry whose key equals k, forking on symbolic equalities; -1 if none.
func (w *World) mapFind(fr *frame, m *omap, k value) int {
	h, conc := hashKey(k)
	if conc && m.nsym == 0 {
		for _, i := range m.index[h] {
			if !m.entries[i].deleted {
				return i
			}
		}
		return -1
	}
	// symbolic: compare against every live entry (possible equality only)
	for i := range m.entries {
		e := &m.entries[i]
		if e.deleted {
			continue
		}
		if conc && !e.symKey {
			if h2, _ := hashKey(e.k); h2 == h {
				return i
			}
			continue
		}
		eq := w.eqv(fr, m.kt, e.k, k)
		if w.truth(eq) {
			return i
		}
	}
	return -1
}

func (w *World) lookup(fr *frame, instr *ssa.Lookup, x, idx value) value {
	switch x := x.(type) {
	case *omap:
		var v value
		ok := false
		if x != nil {
			if i := w.mapFind(fr, x, idx); i >= 0 {
				v = copyVal(x.entries[i].v)
				ok = true
			}
		}
		if !ok {
			v = zero(instr.X.Type().Underlying().(*types.Map).Elem())
		}
		if instr.CommaOk {
			return tuple{v, ok}
		}
		return v
	case string, *symstr:
		// string index (Lookup is used for s[i] on strings)
		n := strLen(x)
		i, t := w.checkIndex(fr, instr.Pos(), idx, instr.Index.Type(), n)
		if t == nil {
			return strAt(x, i)
		}
		b := strBytes(x)
		res := w.toTermW(b[n-1], 8)
		for k := n - 2; k >= 0; k-- {
			res = w.tt.Ite(w.tt.Cmp(OpEq, t, w.tt.Const(uint64(k), t.W)), w.toTermW(b[k], 8), res)
		}
		return fromTerm(res)
	}
	panic(engineError{fmt.Sprintf("unexpected x type in Lookup: %T", x)})
}

func (w *World) mapUpdate(fr *frame, m *omap, k, v value) {
	w.mapTouch(m)
	if i := w.mapFind(fr, m, k); i >= 0 {
		m.entries[i].v = copyVal(v)
		return
	}
	h, conc := hashKey(k)
	m.entries = append(m.entries, mapEntry{k: copyVal(k), v: copyVal(v), symKey: !conc})
	if conc {
		m.index[h] = append(m.index[h], len(m.entries)-1)
	} else {
		m.nsym++
	}
	m.live++
}

func (w *World) mapDelete(fr *frame, m *omap, k value) {
	i := w.mapFind(fr, m, k)
	if i < 0 {
		return
	}
	w.mapTouch(m)
	e := &m.entries[i]
	e.deleted = true
	m.live--
	if e.symKey {
		m.nsym--
	} else {
		h, _ := hashKey(e.k)
		lst := m.index[h]
		for j, x := range lst {
			if x == i {
				m.index[h] = append(append([]int(nil), lst[:j]...), lst[j+1:]...)
				break
			}
		}
		if len(m.index[h]) == 0 {
			delete(m.index, h)
		}
	}
	// compact when mostly tombstones
	if len(m.entries) > 32 && m.live*2 < len(m.entries) {
		m.compact()
	}
}

func (m *omap) compact() {
	var ne []mapEntry
	for _, e := range m.entries {
		if !e.deleted {
			ne = append(ne, e)
		}
	}
	m.entries = ne
	m.index = map[any][]int{}
	for i, e := range ne {
		if !e.symKey {
			h, _ := hashKey(e.k)
			m.index[h] = append(m.index[h], i)
		}
	}
}

func (w *World) mapClear(m *omap) {
	w.mapTouch(m)
	m.entries = nil
	m.index = map[any][]int{}
	m.live = 0
	m.nsym = 0
}
