package main

// Value domain of the symbolic interpreter. Concrete shape, symbolic scalars.
//
//   bool, uint64 (every integer kind, masked to its width), float32, float64,
//   string                    concrete string
//   *symstr                   string with symbolic bytes
//   *Term                     symbolic scalar (Bool or bit-vector)
//   *value                    pointer to a memory cell
//   structure, array, []value aggregates (as in x/tools/go/ssa/interp)
//   iface, tuple, *closure, *ssa.Function, *ssa.Builtin
//   *omap, *channel           maps, channels
//   *symptr                   pointer selected by a symbolic index

import (
	"fmt"
	"go/types"
	"strings"

	"golang.org/x/tools/go/ssa"
)

type value any

type tuple []value
type array []value
type structure []value

type iface struct {
	t types.Type
	v value
}

type closure struct {
	Fn  *ssa.Function
	Env []value
}

// symstr is an immutable string with at least one symbolic byte.
type symstr struct {
	b []value // uint64 (0..255) or *Term (W=8)
}

// symptr is the address of cells[idx] for a symbolic idx (in range by construction), optionally
// followed by a field/element path into the cell.
type symptr struct {
	cells []*value
	idx   *Term
	path  []int
}

// opaque stands for a string whose contents the engine refuses to know (fmt.Sprintf with symbolic operands).
type opaqueStr struct{ tag string }

type bad struct{}

// engineError aborts the whole check (unsupported construct): never a silent pass.
type engineError struct{ msg string }

func (e engineError) Error() string { return "engine error: " + e.msg }

func unsupported(format string, args ...any) {
	panic(engineError{fmt.Sprintf(format, args...)})
}

// intInfo returns width and signedness of an integer (or bool: 0) basic type.
func intInfo(t types.Type) (w uint8, signed bool) {
	b, ok := t.Underlying().(*types.Basic)
	if !ok {
		if _, isPtr := t.Underlying().(*types.Pointer); isPtr {
			return 64, false
		}
		unsupported("intInfo: not basic: %s", t)
	}
	switch b.Kind() {
	case types.Bool, types.UntypedBool:
		return 0, false
	case types.Int, types.Int64, types.UntypedInt:
		return 64, true
	case types.Int8:
		return 8, true
	case types.Int16:
		return 16, true
	case types.Int32, types.UntypedRune:
		return 32, true
	case types.Uint, types.Uint64, types.Uintptr:
		return 64, false
	case types.Uint8:
		return 8, false
	case types.Uint16:
		return 16, false
	case types.Uint32:
		return 32, false
	}
	unsupported("intInfo: unexpected basic kind %s", t)
	return
}

func isInteger(t types.Type) bool {
	b, ok := t.Underlying().(*types.Basic)
	return ok && b.Info()&types.IsInteger != 0
}

func isString(t types.Type) bool {
	b, ok := t.Underlying().(*types.Basic)
	return ok && b.Info()&types.IsString != 0
}

func isFloat(t types.Type) bool {
	b, ok := t.Underlying().(*types.Basic)
	return ok && b.Info()&types.IsFloat != 0
}

// zero returns a new zero value of type t.
func zero(t types.Type) value {
	switch t := t.(type) {
	case *types.Basic:
		if t.Kind() == types.UntypedNil {
			panic("untyped nil has no zero value")
		}
		if t.Info()&types.IsUntyped != 0 {
			t = types.Default(t).(*types.Basic)
		}
		switch {
		case t.Kind() == types.Bool:
			return false
		case t.Info()&types.IsInteger != 0:
			return uint64(0)
		case t.Kind() == types.Float32:
			return float32(0)
		case t.Kind() == types.Float64:
			return float64(0)
		case t.Kind() == types.String:
			return ""
		case t.Kind() == types.UnsafePointer:
			return (*value)(nil)
		case t.Kind() == types.Complex64, t.Kind() == types.Complex128:
			return complex128(0)
		}
		unsupported("zero for unexpected type: %s", t)
	case *types.Pointer:
		return (*value)(nil)
	case *types.Array:
		a := make(array, t.Len())
		for i := range a {
			a[i] = zero(t.Elem())
		}
		return a
	case *types.Named:
		return zero(t.Underlying())
	case *types.Alias:
		return zero(types.Unalias(t))
	case *types.Interface:
		return iface{}
	case *types.Slice:
		return []value(nil)
	case *types.Struct:
		s := make(structure, t.NumFields())
		for i := range s {
			s[i] = zero(t.Field(i).Type())
		}
		return s
	case *types.Tuple:
		if t.Len() == 1 {
			return zero(t.At(0).Type())
		}
		s := make(tuple, t.Len())
		for i := range s {
			s[i] = zero(t.At(i).Type())
		}
		return s
	case *types.Chan:
		return (*channel)(nil)
	case *types.Map:
		return (*omap)(nil)
	case *types.Signature:
		return (*ssa.Function)(nil)
	case *types.TypeParam:
		unsupported("zero of type parameter %s (generic not instantiated)", t)
	}
	unsupported("zero: unexpected %T %s", t, t)
	return nil
}

// copyVal returns an unaliased copy of an aggregate value (scalars and references are returned as is).
func copyVal(v value) value {
	switch v := v.(type) {
	case structure:
		a := make(structure, len(v))
		for i := range v {
			a[i] = copyVal(v[i])
		}
		return a
	case array:
		a := make(array, len(v))
		for i := range v {
			a[i] = copyVal(v[i])
		}
		return a
	}
	return v
}

// ---------------------------------------------------------------------
// strings

func mkString(b []value) value {
	allc := true
	for _, x := range b {
		if _, ok := x.(uint64); !ok {
			allc = false
			break
		}
	}
	if allc {
		bs := make([]byte, len(b))
		for i, x := range b {
			bs[i] = byte(x.(uint64))
		}
		return string(bs)
	}
	return &symstr{b: append([]value(nil), b...)}
}

func strLen(v value) int {
	switch s := v.(type) {
	case string:
		return len(s)
	case *symstr:
		return len(s.b)
	case *opaqueStr:
		unsupported("len of opaque string (%s)", s.tag)
	}
	panic(fmt.Sprintf("strLen: %T", v))
}

func strBytes(v value) []value {
	switch s := v.(type) {
	case string:
		r := make([]value, len(s))
		for i := 0; i < len(s); i++ {
			r[i] = uint64(s[i])
		}
		return r
	case *symstr:
		return s.b
	case *opaqueStr:
		unsupported("contents of opaque string inspected (%s)", s.tag)
	}
	panic(fmt.Sprintf("strBytes: %T", v))
}

func strAt(v value, i int) value {
	switch s := v.(type) {
	case string:
		return uint64(s[i])
	case *symstr:
		return s.b[i]
	}
	panic(fmt.Sprintf("strAt: %T", v))
}

func strSlice(v value, lo, hi int) value {
	switch s := v.(type) {
	case string:
		return s[lo:hi]
	case *symstr:
		return mkString(s.b[lo:hi])
	}
	panic(fmt.Sprintf("strSlice: %T", v))
}

func strConcat(x, y value) value {
	if xs, ok := x.(string); ok {
		if ys, ok := y.(string); ok {
			return xs + ys
		}
	}
	if o, ok := x.(*opaqueStr); ok {
		return o
	}
	if o, ok := y.(*opaqueStr); ok {
		return o
	}
	xb, yb := strBytes(x), strBytes(y)
	r := make([]value, 0, len(xb)+len(yb))
	r = append(r, xb...)
	r = append(r, yb...)
	return mkString(r)
}

// ---------------------------------------------------------------------
// printing (debugging, panic messages)

func toString(v value) string {
	var b strings.Builder
	writeValue(&b, v, 0)
	return b.String()
}

func writeValue(buf *strings.Builder, v value, depth int) {
	if depth > 4 {
		buf.WriteString("…")
		return
	}
	switch v := v.(type) {
	case nil:
		buf.WriteString("<nil>")
	case bool, uint64, float32, float64:
		fmt.Fprintf(buf, "%v", v)
	case string:
		fmt.Fprintf(buf, "%q", v)
	case *symstr:
		fmt.Fprintf(buf, "symstr[%d]", len(v.b))
	case *opaqueStr:
		fmt.Fprintf(buf, "opaque(%s)", v.tag)
	case *Term:
		buf.WriteString(TermString(v, 3))
	case *value:
		if v == nil {
			buf.WriteString("nil")
		} else {
			fmt.Fprintf(buf, "%p", v)
		}
	case iface:
		if v.t == nil {
			buf.WriteString("nil-iface")
			return
		}
		fmt.Fprintf(buf, "(%s, ", v.t)
		writeValue(buf, v.v, depth+1)
		buf.WriteString(")")
	case structure:
		buf.WriteString("{")
		for i, e := range v {
			if i > 0 {
				buf.WriteString(" ")
			}
			if i > 8 {
				buf.WriteString("…")
				break
			}
			writeValue(buf, e, depth+1)
		}
		buf.WriteString("}")
	case array:
		writeSeq(buf, []value(v), depth)
	case []value:
		writeSeq(buf, v, depth)
	case tuple:
		writeSeq(buf, []value(v), depth)
	case *ssa.Function:
		if v == nil {
			buf.WriteString("nil-func")
		} else {
			buf.WriteString(v.String())
		}
	case *closure:
		buf.WriteString("closure:" + v.Fn.String())
	default:
		fmt.Fprintf(buf, "<%T>", v)
	}
}

func writeSeq(buf *strings.Builder, v []value, depth int) {
	buf.WriteString("[")
	for i, e := range v {
		if i > 0 {
			buf.WriteString(" ")
		}
		if i > 16 {
			buf.WriteString("…")
			break
		}
		writeValue(buf, e, depth+1)
	}
	buf.WriteString("]")
}
