package main

// Intrinsics added while strengthening C18 (ClientConn.closeConn arms a 250 ms watchdog with time.AfterFunc and
// stops it again before returning).
//
// Timer model for time.AfterFunc: the returned timer NEVER fires inside the engine (its function is not run) and
// Stop reports true ("the call stopped the timer"). This under-approximates schedules in which the timer fires; it
// is only sound for code where the timer function is irrelevant to the property. A check that relies on it must
// say so in its "assumptions" (C18: forceCloseConn is a no-op for a net.Conn that is not a *tls.Conn).

func init() {
	externals["time.AfterFunc"] = func(fr *frame, args []value) value {
		p := new(value)
		*p = zero(mustDeref(fr.fn.Signature.Results().At(0).Type()))
		return p
	}
	externals["(*time.Timer).Stop"] = func(fr *frame, args []value) value {
		return true
	}
}
