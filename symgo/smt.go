package main

// Long-lived SMT solver processes spoken to in SMT-LIB2 text over pipes, plus
// a one-shot portfolio for queries the primary solver answers "unknown".

import (
	"bufio"
	"bytes"
	"fmt"
	"io"
	"os"
	"os/exec"
	"strconv"
	"strings"
	"sync/atomic"
	"time"
)

type SolverStats struct {
	Queries  int64
	Sat      int64
	Unsat    int64
	Unknown  int64
	Errors   int64
	Fallback int64
	Enumerated int64 // branch-feasibility queries over ≤8 free bits decided by complete enumeration
	Nanos    int64
}

var gStats SolverStats // aggregated over all workers (atomics)

type Solver struct {
	cmd     *exec.Cmd
	in      io.WriteCloser
	out     *bufio.Reader
	em      *Emitter
	asserts []*Term // asserted at base level in this session (for fallback dumps)
	seq     int
	timeout int // ms per check
	ndefs   int
	dead    bool
	shortTimeout bool
}

func StartSolver(timeoutMs int) (*Solver, error) {
	s := &Solver{timeout: timeoutMs}
	if err := s.start(); err != nil {
		return nil, err
	}
	return s, nil
}

func (s *Solver) start() error {
	var cmd *exec.Cmd
	if gPrimarySolver == "cvc5" {
		cmd = exec.Command("cvc5", "--incremental", "--produce-models", "--lang=smt2", fmt.Sprintf("--tlimit-per=%d", s.timeout))
	} else {
		cmd = exec.Command(gPrimarySolver, "-in", "-smt2")
	}
	in, err := cmd.StdinPipe()
	if err != nil {
		return err
	}
	out, err := cmd.StdoutPipe()
	if err != nil {
		return err
	}
	cmd.Stderr = cmd.Stdout
	if err := cmd.Start(); err != nil {
		return err
	}
	s.cmd, s.in, s.out = cmd, in, bufio.NewReaderSize(out, 1<<16)
	s.dead = false
	s.Reset()
	return nil
}

func (s *Solver) Close() {
	if s.cmd != nil {
		s.in.Close()
		s.cmd.Process.Kill()
		s.cmd.Wait()
		s.cmd = nil
	}
}

func (s *Solver) send(text string) {
	if _, err := io.WriteString(s.in, text); err != nil {
		s.dead = true
	}
}

// Reset starts a new solver session (definitions are forgotten).
func (s *Solver) Reset() {
	s.em = NewEmitter()
	s.asserts = s.asserts[:0]
	s.ndefs = 0
	s.shortTimeout = false
	if s.dead {
		s.Close()
		if err := s.start(); err != nil {
			panic(engineError{"cannot restart z3: " + err.Error()})
		}
		return
	}
	if gPrimarySolver == "cvc5" {
		s.send("(reset)\n(set-logic QF_BV)\n")
		return
	}
	s.send(fmt.Sprintf("(reset)\n(set-option :timeout %d)\n", s.timeout))
}

// Assert adds t permanently to the session.
func (s *Solver) Assert(t *Term) {
	var sb strings.Builder
	s.em.Define(&sb, t)
	fmt.Fprintf(&sb, "(assert %s)\n", smtRef(t))
	s.send(sb.String())
	s.asserts = append(s.asserts, t)
}

// readUntil reads lines until the marker line and returns the lines before it.
func (s *Solver) readUntil(marker string) ([]string, error) {
	var lines []string
	for {
		line, err := s.out.ReadString('\n')
		if err != nil {
			s.dead = true
			return lines, err
		}
		line = strings.Trim(strings.TrimRight(line, "\r\n"), "\"")
		if line == marker {
			return lines, nil
		}
		lines = append(lines, line)
	}
}

type SatResult int

const (
	ResUnsat SatResult = iota
	ResSat
	ResUnknown
)

func (r SatResult) String() string { return [...]string{"unsat", "sat", "unknown"}[r] }

// CheckSet decides the conjunction of terms (a self-contained query; term definitions persist in the
// session so that shared sub-terms are sent once per worker). If sat and wantModel, values of vars are returned.
func (s *Solver) CheckSet(terms []*Term, vars []string, wantModel bool) (SatResult, Model) {
	t0 := time.Now()
	atomic.AddInt64(&gStats.Queries, 1)
	s.asserts = append(s.asserts[:0], terms...)
	var sb strings.Builder
	// variable declarations persist in the session; term definitions live inside the push scope and are
	// popped with it (accumulated define-funs make every later check-sat slower in z3)
	for _, t := range terms {
		s.em.DeclareVars(&sb, t)
	}
	s.seq++
	marker := "<<" + strconv.Itoa(s.seq) + ">>"
	// multiplication/division kernels: bit-blasting rarely finishes; give the primary 2 s, then the
	// integer-encoding back end (cvc5 --solve-bv-as-int) gets its turn in the fallback portfolio
	muldiv := false
	if gPrimarySolver != "cvc5" {
		seen := map[*Term]bool{}
		for _, t := range terms {
			if hasMulDiv(t, seen) {
				muldiv = true
				break
			}
		}
		if muldiv != s.shortTimeout {
			s.shortTimeout = muldiv
			if muldiv {
				sb.WriteString("(set-option :timeout 2000)\n")
			} else {
				fmt.Fprintf(&sb, "(set-option :timeout %d)\n", s.timeout)
			}
		}
	}
	if gPrimarySolver == "cvc5" {
		// cvc5's check-sat cost does not grow with the number of definitions: keep them in the session
		if len(s.em.defined) > 1_000_000 {
			s.Reset()
			for _, t := range terms {
				s.em.DeclareVars(&sb, t)
			}
		}
		for _, t := range terms {
			s.em.Define(&sb, t)
		}
		sb.WriteString("(push)\n")
	} else {
		sb.WriteString("(push)\n")
		qem := &Emitter{defined: map[int]bool{}, vars: s.em.vars}
		for _, t := range terms {
			qem.Define(&sb, t)
		}
	}
	for _, t := range terms {
		fmt.Fprintf(&sb, "(assert %s)\n", smtRef(t))
	}
	sb.WriteString("(check-sat)\n")
	fmt.Fprintf(&sb, "(echo \"%s\")\n", marker)
	s.send(sb.String())
	lines, err := s.readUntil(marker)
	res := ResUnknown
	bad := err != nil
	for _, l := range lines {
		switch {
		case l == "sat":
			res = ResSat
		case l == "unsat":
			res = ResUnsat
		case l == "unknown":
			res = ResUnknown
		case strings.HasPrefix(l, "(error"):
			bad = true
			if gDebug {
				fmt.Println("SOLVER ERROR:", l)
			}
		}
	}
	var model Model
	if bad {
		atomic.AddInt64(&gStats.Errors, 1)
		res = ResUnknown
	}
	if res == ResSat && wantModel && len(vars) > 0 {
		s.seq++
		marker = "<<" + strconv.Itoa(s.seq) + ">>"
		s.send("(get-value (" + strings.Join(vars, " ") + "))\n(echo \"" + marker + "\")\n")
		lines, err = s.readUntil(marker)
		if err != nil {
			res = ResUnknown
		} else {
			model = parseModel(strings.Join(lines, " "))
		}
	} else if res == ResSat && wantModel {
		model = Model{}
	}
	if !s.dead {
		s.send("(pop)\n")
	}
	if res == ResUnknown {
		// portfolio fallback on a fresh one-shot process
		atomic.AddInt64(&gStats.Fallback, 1)
		res, model = s.fallback(nil, wantModel)
		if s.dead {
			s.Reset()
		}
	}
	switch res {
	case ResSat:
		atomic.AddInt64(&gStats.Sat, 1)
	case ResUnsat:
		atomic.AddInt64(&gStats.Unsat, 1)
	default:
		atomic.AddInt64(&gStats.Unknown, 1)
	}
	if d := os.Getenv("SYMGO_DUMPQ"); d != "" && time.Since(t0) > dumpThreshold() {
		if n := atomic.AddInt64(&gDumped, 1); n <= 20 {
			os.WriteFile(fmt.Sprintf("%s/q%d_%dms.smt2", d, n, time.Since(t0).Milliseconds()), []byte(s.dump(nil, false)), 0o644)
		}
	}
	atomic.AddInt64(&gStats.Nanos, int64(time.Since(t0)))
	return res, model
}

// dumpThreshold: SYMGO_DUMPMS=<ms> raises the SYMGO_DUMPQ threshold (default 15 ms) to catch only slow queries.
func dumpThreshold() time.Duration {
	if v, err := strconv.Atoi(os.Getenv("SYMGO_DUMPMS")); err == nil && v > 0 {
		return time.Duration(v) * time.Millisecond
	}
	return 15 * time.Millisecond
}

// parseModel parses "((a #x00) (b #b1) (c true))".
func parseModel(s string) Model {
	m := Model{}
	toks := strings.Fields(strings.NewReplacer("(", " ", ")", " ").Replace(s))
	for i := 0; i+1 < len(toks); i += 2 {
		name, v := toks[i], toks[i+1]
		switch {
		case v == "true":
			m[name] = 1
		case v == "false":
			m[name] = 0
		case strings.HasPrefix(v, "#x"):
			u, _ := strconv.ParseUint(v[2:], 16, 64)
			m[name] = u
		case strings.HasPrefix(v, "#b"):
			u, _ := strconv.ParseUint(v[2:], 2, 64)
			m[name] = u
		case v == "_": // (_ bv10 32)
			if i+3 < len(toks) && strings.HasPrefix(toks[i+2], "bv") {
				u, _ := strconv.ParseUint(toks[i+2][2:], 10, 64)
				m[name] = u
				i += 2
			}
		}
	}
	return m
}

// dump writes the whole problem (session asserts + extra) as a standalone script.
func (s *Solver) dump(extra *Term, wantModel bool) string {
	var sb strings.Builder
	em := NewEmitter()
	for _, a := range s.asserts {
		em.Define(&sb, a)
		fmt.Fprintf(&sb, "(assert %s)\n", smtRef(a))
	}
	if extra != nil {
		em.Define(&sb, extra)
		fmt.Fprintf(&sb, "(assert %s)\n", smtRef(extra))
	}
	sb.WriteString("(check-sat)\n")
	if wantModel && len(em.varList) > 0 {
		sb.WriteString("(get-value (" + strings.Join(em.varList, " ") + "))\n")
	}
	return sb.String()
}

var gFallbackTimeout = 60 // seconds per back end

// gPrimarySolver is the long-lived incremental solver (z3 5.1.0 answers small queries ~6x faster than 4.8.12).
var gPrimarySolver = envOr("SYMGO_SOLVER", "z3-new")

func envOr(k, d string) string {
	if v := os.Getenv(k); v != "" {
		return v
	}
	return d
}

func envInt(k string, d int) int {
	if v, err := strconv.Atoi(os.Getenv(k)); err == nil {
		return v
	}
	return d
}

type backend struct {
	name string
	argv []string
	pre  string
}

func (s *Solver) fallback(extra *Term, wantModel bool) (SatResult, Model) {
	script := s.dump(extra, wantModel)
	if d := os.Getenv("SYMGO_DUMPQ"); d != "" {
		os.WriteFile(fmt.Sprintf("%s/fallback%d.smt2", d, atomic.AddInt64(&gDumped, 1)), []byte(script), 0o644)
	}
	muldiv := false
	seen := map[*Term]bool{}
	for _, a := range s.asserts {
		if hasMulDiv(a, seen) {
			muldiv = true
		}
	}
	if extra != nil && hasMulDiv(extra, seen) {
		muldiv = true
	}
	tmo := gFallbackTimeout
	bes := []backend{
		// a fresh process of the primary solver often decides in a second or two what the long-lived incremental
		// one gave up on (no learnt state, default tactic selection for a one-shot query)
		{"z3-5.1-fresh", []string{"z3-new", "-in", "-smt2", fmt.Sprintf("-T:%d", tmo/2)}, ""},
		{"z3-4.8.12", []string{"z3", "-in", "-smt2", fmt.Sprintf("-T:%d", tmo)}, ""},
		{"cvc5", []string{"cvc5", "--lang=smt2", "--produce-models", fmt.Sprintf("--tlimit=%d", tmo*1000)}, "(set-logic QF_BV)\n"},
	}
	if muldiv {
		bi := backend{"cvc5-bvint", []string{"cvc5", "--lang=smt2", "--produce-models", "--solve-bv-as-int=sum", fmt.Sprintf("--tlimit=%d", tmo*1000)}, "(set-logic ALL)\n"}
		bes = append([]backend{bi}, bes...)
	}
	for _, be := range bes {
		cmd := exec.Command(be.argv[0], be.argv[1:]...)
		cmd.Stdin = strings.NewReader(be.pre + script)
		var out bytes.Buffer
		cmd.Stdout = &out
		cmd.Stderr = &out
		done := make(chan error, 1)
		if err := cmd.Start(); err != nil {
			continue
		}
		go func() { done <- cmd.Wait() }()
		select {
		case <-done:
		case <-time.After(time.Duration(tmo+5) * time.Second):
			cmd.Process.Kill()
			<-done
		}
		text := out.String()
		// an "(error" line before the verdict (or with a sat verdict) makes the answer inconclusive; after
		// "unsat" the only possible error is the get-value request of the script, which is expected
		if strings.Contains(text, "(error") && strings.TrimSpace(firstLine(strings.TrimSpace(text))) != "unsat" {
			if gDebug {
				fmt.Println("FALLBACK ERROR", be.name, firstLine(text))
			}
			continue
		}
		lines := strings.SplitN(strings.TrimSpace(text), "\n", 2)
		if len(lines) == 0 {
			continue
		}
		switch strings.TrimSpace(lines[0]) {
		case "unsat":
			noteBackend(be.name)
			return ResUnsat, nil
		case "sat":
			noteBackend(be.name)
			m := Model{}
			if len(lines) > 1 {
				m = parseModel(lines[1])
			}
			return ResSat, m
		}
	}
	return ResUnknown, nil
}

func firstLine(s string) string {
	if i := strings.IndexByte(s, '\n'); i >= 0 {
		return s[:i]
	}
	return s
}

var gBackendUse atomicMap

type atomicMap struct {
	mu chan struct{}
	m  map[string]int
}

func noteBackend(name string) {
	if gBackendUse.mu == nil {
		return
	}
	gBackendUse.mu <- struct{}{}
	gBackendUse.m[name]++
	<-gBackendUse.mu
}

func init() {
	gBackendUse.mu = make(chan struct{}, 1)
	gBackendUse.m = map[string]int{}
}
var gDumped int64

// dumpqMinMs is the minimum duration of a query dumped under SYMGO_DUMPQ (SYMGO_DUMPQ_MS, default 15).
func dumpqMinMs() int {
	if v, err := strconv.Atoi(os.Getenv("SYMGO_DUMPQ_MS")); err == nil {
		return v
	}
	return 15
}
