package main

import (
	"fmt"
	"go/token"
	"go/types"
	"strings"

	"golang.org/x/tools/go/ssa"
)

func (w *World) callBuiltin(caller *frame, pos token.Pos, fn *ssa.Builtin, args []value) value {
	switch fn.Name() {
	case "append":
		if len(args) == 1 {
			return args[0]
		}
		dst := args[0].([]value)
		var src []value
		switch s := args[1].(type) {
		case string, *symstr:
			src = strBytes(s)
		case []value:
			src = s
		default:
			panic(engineError{fmt.Sprintf("append: %T", args[1])})
		}
		if len(src) == 0 {
			return dst
		}
		n := len(dst) + len(src)
		if n <= cap(dst) {
			// in place: the cells between len and cap are overwritten
			res := dst[:n]
			for i, v := range src {
				w.setCell(&res[len(dst)+i], copyVal(v))
			}
			return res
		}
		// grow like the runtime (amortised doubling; exact cap is unspecified by the language)
		nc := cap(dst) * 2
		if nc < n {
			nc = n
		}
		if nc < 4 {
			nc = 4
		}
		res := make([]value, n, nc)
		for i, v := range dst {
			res[i] = v // old cells' contents move (aggregates are not shared after this: copy)
			res[i] = copyVal(v)
		}
		for i, v := range src {
			res[len(dst)+i] = copyVal(v)
		}
		// zero the spare capacity lazily: cells beyond len get the element zero value on reslice
		if nc > n {
			var et types.Type
			if sig := fn.Type().(*types.Signature); sig.Params().Len() > 0 {
				if st, ok := sig.Params().At(0).Type().Underlying().(*types.Slice); ok {
					et = st.Elem()
				}
			}
			full := res[:nc]
			for i := n; i < nc; i++ {
				if et != nil {
					full[i] = zero(et)
				} else if n > 0 {
					full[i] = zeroLike(res[0])
				}
			}
		}
		return res

	case "copy":
		dst := args[0].([]value)
		var src []value
		switch s := args[1].(type) {
		case string, *symstr:
			src = strBytes(s)
		case []value:
			src = s
		}
		n := len(dst)
		if len(src) < n {
			n = len(src)
		}
		if n == 0 {
			return uint64(0)
		}
		// handle overlap like memmove
		tmp := make([]value, n)
		for i := 0; i < n; i++ {
			tmp[i] = copyVal(src[i])
		}
		for i := 0; i < n; i++ {
			w.setCell(&dst[i], tmp[i])
		}
		return uint64(n)

	case "close":
		w.chanClose(caller, pos, args[0])
		return nil

	case "delete":
		m := args[0].(*omap)
		if m != nil {
			w.mapDelete(caller, m, args[1])
		}
		return nil

	case "print", "println":
		return nil

	case "len":
		switch x := args[0].(type) {
		case string, *symstr:
			return uint64(strLen(x))
		case *opaqueStr:
			unsupported("len of opaque string")
		case array:
			return uint64(len(x))
		case *value:
			if x == nil {
				// len of nil *array is the array length: take from type
				t := fn.Type().(*types.Signature).Params().At(0).Type()
				return uint64(mustDeref(t).Underlying().(*types.Array).Len())
			}
			return uint64(len((*x).(array)))
		case []value:
			return uint64(len(x))
		case *omap:
			if x == nil {
				return uint64(0)
			}
			return uint64(x.len())
		case *channel:
			if x == nil {
				return uint64(0)
			}
			return uint64(len(x.buf))
		}
		panic(engineError{fmt.Sprintf("len: illegal operand: %T", args[0])})

	case "cap":
		switch x := args[0].(type) {
		case array:
			return uint64(len(x))
		case *value:
			if x == nil {
				t := fn.Type().(*types.Signature).Params().At(0).Type()
				return uint64(mustDeref(t).Underlying().(*types.Array).Len())
			}
			return uint64(len((*x).(array)))
		case []value:
			return uint64(cap(x))
		case *channel:
			if x == nil {
				return uint64(0)
			}
			return uint64(x.cap)
		}
		panic(engineError{fmt.Sprintf("cap: illegal operand: %T", args[0])})

	case "min", "max":
		t := fn.Type().(*types.Signature).Params().At(0).Type()
		res := args[0]
		for _, a := range args[1:] {
			res = w.minmax(caller, fn.Name() == "min", t, res, a)
		}
		return res

	case "clear":
		switch x := args[0].(type) {
		case *omap:
			if x != nil {
				w.mapClear(x)
			}
		case []value:
			t := fn.Type().(*types.Signature).Params().At(0).Type().Underlying().(*types.Slice).Elem()
			for i := range x {
				w.store(t, &x[i], zero(t))
			}
		}
		return nil

	case "recover":
		return w.doRecover(caller)

	case "panic":
		panic(targetPanic{v: args[0], where: w.where(caller, pos)})

	case "real", "imag", "complex":
		unsupported("complex numbers")

	case "ssa:wrapnilchk":
		recv := args[0]
		if p, ok := recv.(*value); ok && p == nil {
			recvType := args[1]
			methodName := args[2]
			panic(targetPanic{v: iface{w.runtimeErrorT, fmt.Sprintf("value method %s.%s called using nil *%s pointer", recvType, methodName, recvType)}, where: w.where(caller, pos)})
		}
		return recv

	case "ssa:deferstack":
		return &caller.defers

	case "String": // unsafe.String
		return w.unsafeString(caller, args)
	case "StringData":
		return w.unsafeStringData(caller, args)
	case "SliceData":
		sl := args[0].([]value)
		if cap(sl) == 0 {
			return (*value)(nil)
		}
		var cell value = array(sl[:cap(sl)])
		return &cell
	case "Slice": // unsafe.Slice(ptr, len)
		return w.unsafeSlice(caller, fn, args)
	}
	panic(engineError{"unknown built-in: " + fn.Name()})
}

func zeroLike(v value) value {
	switch v := v.(type) {
	case bool:
		return false
	case uint64, *Term:
		return uint64(0)
	case string, *symstr:
		return ""
	case float64:
		return float64(0)
	case *value:
		return (*value)(nil)
	case structure:
		r := make(structure, len(v))
		for i := range v {
			r[i] = zeroLike(v[i])
		}
		return r
	case array:
		r := make(array, len(v))
		for i := range v {
			r[i] = zeroLike(v[i])
		}
		return r
	case iface:
		return iface{}
	case []value:
		return []value(nil)
	case *omap:
		return (*omap)(nil)
	case *ssa.Function, *closure:
		return (*ssa.Function)(nil)
	}
	return nil
}

func (w *World) minmax(fr *frame, isMin bool, t types.Type, x, y value) value {
	if isString(t) {
		less := w.strOrder(token.LSS, y, x)
		if isMin == w.truth(less) {
			return y
		}
		return x
	}
	if isFloat(t) {
		xf, yf := x.(float64), y.(float64)
		if isMin == (yf < xf) {
			return yf
		}
		return xf
	}
	wd, _ := intInfo(t)
	lt := w.binop(fr, token.NoPos, token.LSS, t, t, y, x) // y < x
	switch c := lt.(type) {
	case bool:
		if isMin == c {
			return y
		}
		return x
	case *Term:
		a, b := w.toTermW(y, wd), w.toTermW(x, wd)
		if !isMin {
			a, b = b, a
		}
		return fromTerm(w.tt.Ite(c, a, b))
	}
	panic("minmax")
}

// unsafe.String(ptr *byte, len) — only when ptr came from SliceData/StringData (pointer to an `array` view).
func (w *World) unsafeString(fr *frame, args []value) value {
	n := int(args[1].(uint64))
	if n == 0 {
		return ""
	}
	p := args[0].(*value)
	a, ok := (*p).(array)
	if !ok {
		unsupported("unsafe.String on a pointer that is not a slice/string data pointer")
	}
	return mkString(a[:n])
}

func (w *World) unsafeStringData(fr *frame, args []value) value {
	b := strBytes(args[0])
	if len(b) == 0 {
		return (*value)(nil)
	}
	var cell value = array(append([]value(nil), b...))
	return &cell
}

func (w *World) unsafeSlice(fr *frame, fn *ssa.Builtin, args []value) value {
	p := args[0].(*value)
	n := int(args[1].(uint64))
	if p == nil {
		return []value(nil)
	}
	a, ok := (*p).(array)
	if !ok {
		unsupported("unsafe.Slice on a pointer that is not a slice/string data pointer")
	}
	return []value(a[:n:n])
}

// ---------------------------------------------------------------------
// range iterators

type iter interface {
	next(w *World, fr *frame) tuple
}

type stringIter struct {
	b []value
	i int
}

func (it *stringIter) next(w *World, fr *frame) tuple {
	if it.i >= len(it.b) {
		return tuple{false, uint64(0), uint64(0)}
	}
	r, size := w.decodeRune(it.b[it.i:])
	k := it.i
	it.i += size
	return tuple{true, uint64(k), r}
}

type mapIter struct {
	m    *omap
	keys []value
	i    int
}

func (it *mapIter) next(w *World, fr *frame) tuple {
	for it.i < len(it.keys) {
		k := it.keys[it.i]
		it.i++
		if v, ok := it.m.getExact(k); ok {
			return tuple{true, k, copyVal(v)}
		}
	}
	return tuple{false, nil, nil}
}

func (w *World) rangeIter(fr *frame, instr *ssa.Range, x value) iter {
	switch x := x.(type) {
	case *omap:
		if x == nil {
			return &mapIter{m: nil}
		}
		keys := x.liveKeys()
		// iteration order: Go's is unspecified. Small maps: symbolic permutation via forked rotation+swap;
		// otherwise fixed (insertion) order, recorded in evidence.
		if n := len(keys); n > 1 {
			if n <= w.h.MapOrderMax {
				keys = w.permute(keys)
			} else {
				w.h.noteMapOrderFixed()
			}
		}
		return &mapIter{m: x, keys: keys}
	case string, *symstr:
		return &stringIter{b: strBytes(x)}
	}
	panic(engineError{fmt.Sprintf("cannot range over %T", x)})
}

// permute picks a permutation of keys by forked choices (n! orders for n <= MapOrderMax).
func (w *World) permute(keys []value) []value {
	res := make([]value, 0, len(keys))
	rest := append([]value(nil), keys...)
	for len(rest) > 1 {
		k := w.chooseN(len(rest), "maporder")
		res = append(res, rest[k])
		rest = append(rest[:k], rest[k+1:]...)
	}
	return append(res, rest[0])
}

// chooseN makes a forked nondeterministic choice in 0..n-1 (an anonymous input).
func (w *World) chooseN(n int, label string) int {
	if n <= 1 {
		return 0
	}
	w.run.schedDependent = true // scheduler / select / map-order choices cannot be forced in a native run
	if gDebug {
		desc := ""
		if w.sched != nil {
			for _, th := range w.sched.threads {
				st := "run"
				if th.done {
					st = "done"
				} else if th.blockedOn != nil {
					st = "blk:" + th.what
					if th.blockedOn() {
						st += "(ready)"
					}
				}
				desc += fmt.Sprintf(" %s=%s", th.name, st)
			}
			desc += " cur=" + w.sched.cur.name
		}
		w.run.dbgLog = append(w.run.dbgLog, fmt.Sprintf("choose %s of %d input#%d:%s", label, n, len(w.run.inputs), desc))
	}
	t := w.newInput(fmt.Sprintf("%s_of%d", label, n), 8)
	w.run.inputs[len(w.run.inputs)-1].Env = true // scheduler / select / map-order choices are not read from the native vector
	w.assume(fromTerm(w.tt.Cmp(OpUlt, t, w.tt.Const(uint64(n), 8))))
	k := int(w.concretize(t, n+1))
	if k >= n {
		r := w.run
		panic(engineError{fmt.Sprintf("chooseN(%d,%s) = %d: witness[%s]=%d cursor=%d/%d inputs=%d pc=%d", n, label, k, t.Name, r.witness[t.Name], r.cursor, len(r.trail), len(r.inputs), len(r.pc))})
	}
	return k
}

func typeString(t types.Type) string {
	return strings.TrimPrefix(t.String(), "golang.org/x/net/")
}
