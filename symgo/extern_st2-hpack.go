package main

import (
	"strings"

	"golang.org/x/tools/go/ssa"
)

// "sched_globals": true in a check json: every direct load or store of a package-level variable of the package
// under test is a scheduling point (only while more than one target goroutine exists; schedPoint returns at once
// otherwise). This exposes unsynchronised publication through package-level variables (lazily built tables behind
// a broken double-checked lock, flags read outside the lock) to the symbolic scheduler, whose other scheduling
// points are synchronisation operations only. Accesses through pointers derived from a global (elements of a
// global array, fields of the object a global points to) are NOT scheduling points.
func (w *World) schedAtGlobal(addr ssa.Value, what string) {
	g, ok := addr.(*ssa.Global)
	if !ok || g.Pkg == nil || g.Pkg.Pkg == nil || w.sched == nil || len(w.sched.threads) == 1 {
		return
	}
	if !strings.HasSuffix(g.Pkg.Pkg.Path(), w.h.Pkg) {
		return
	}
	w.schedPoint(what)
}

// "pool_reuse": ["VerifXX_name", ...] in a check json: those harnesses run with an adversarial sync.Pool. Put keeps the object in a per-path pool; Get returns
// any one of the pooled objects or a fresh New() (the choice is forked like a scheduling decision, so such paths
// are not part of the native cross-validation sample). Without the knob Put drops the object and Get returns New().
type poolState struct{ items []value }

func init() {
	externals["(*sync.Pool).Put"] = func(fr *frame, args []value) value {
		if !fr.w.h.PoolReuse || fr.w.inInit > 0 {
			return nil
		}
		p, _ := args[0].(*value)
		if p == nil {
			return nil
		}
		if x, ok := args[1].(iface); ok && x.t == nil {
			return nil // Put(nil) is a no-op
		}
		st := fr.w.syncObj(p, func() any { return &poolState{} }).(*poolState)
		st.items = append(st.items, args[1])
		return nil
	}
	externals["(*sync.Pool).Get"] = func(fr *frame, args []value) value {
		w := fr.w
		if !w.h.PoolReuse || w.inInit > 0 {
			return extPoolGet(fr, args)
		}
		p, _ := args[0].(*value)
		if p == nil {
			return extPoolGet(fr, args)
		}
		st := w.syncObj(p, func() any { return &poolState{} }).(*poolState)
		n := len(st.items)
		if n == 0 {
			return extPoolGet(fr, args)
		}
		k := w.chooseN(n+1, "pool")
		if k == n {
			return extPoolGet(fr, args)
		}
		x := st.items[k]
		st.items = append(append([]value(nil), st.items[:k]...), st.items[k+1:]...)
		return x
	}
}
