package main

import "math/bits"

// termUB returns a syntactic unsigned upper bound of a bit-vector term (ok=false if none is evident). Used to index
// large tables with a narrow symbolic index (a byte into a 10^4-entry trie value table) without concretising it.
func termUB(t *Term, depth int) (uint64, bool) {
	if depth > 12 {
		return 0, false
	}
	full := func() (uint64, bool) {
		if t.W > 0 && t.W <= 16 {
			return 1<<t.W - 1, true
		}
		return 0, false
	}
	switch t.Op {
	case OpConst:
		return t.K, true
	case OpVar:
		return full()
	case OpZExt:
		return termUB(t.A, depth+1)
	case OpSExt:
		if ub, ok := termUB(t.A, depth+1); ok && t.A.W > 0 && ub < 1<<(t.A.W-1) {
			return ub, true
		}
	case OpAnd:
		a, oka := termUB(t.A, depth+1)
		b, okb := termUB(t.B, depth+1)
		switch {
		case oka && okb:
			return min(a, b), true
		case oka:
			return a, true
		case okb:
			return b, true
		}
	case OpOr, OpXor:
		a, oka := termUB(t.A, depth+1)
		b, okb := termUB(t.B, depth+1)
		if oka && okb {
			n := bits.Len64(max(a, b))
			if n < 63 {
				return 1<<n - 1, true
			}
		}
	case OpAdd:
		a, oka := termUB(t.A, depth+1)
		b, okb := termUB(t.B, depth+1)
		if oka && okb && a < 1<<40 && b < 1<<40 && (t.W >= 48 || a+b < 1<<t.W) {
			return a + b, true
		}
	case OpIte:
		a, oka := termUB(t.B, depth+1)
		b, okb := termUB(t.C, depth+1)
		if oka && okb {
			return max(a, b), true
		}
	case OpLShr:
		if t.B.Op == OpConst {
			if a, ok := termUB(t.A, depth+1); ok && t.B.K < 64 {
				return a >> t.B.K, true
			}
		}
	case OpShl:
		if t.B.Op == OpConst && t.B.K < 32 {
			if a, ok := termUB(t.A, depth+1); ok && a < 1<<24 && (t.W >= 60 || a<<t.B.K < 1<<t.W) {
				return a << t.B.K, true
			}
		}
	case OpExtract:
		hi, lo := t.K>>8, t.K&0xff
		if lo == 0 {
			if a, ok := termUB(t.A, depth+1); ok {
				if hi < 63 && a > 1<<(hi+1)-1 {
					a = 1<<(hi+1) - 1
				}
				return a, true
			}
		}
	}
	return full()
}
