package main

// Intrinsics added for the HTTP/2 server kernel checks (C08, C10, C11, C15).
// net/http's package initialiser (run lazily at the first call into net/http, e.g. http.Header.Add) evaluates
// package-level variables through reflect; those values are type tokens that the server paths under test never
// inspect, so the calls return zero values.

func init() {
	for _, k := range []string{
		"reflect.TypeOf",
		"reflect.TypeFor",
		"reflect.rtypeOf",
	} {
		if externals[k] == nil {
			externals[k] = func(fr *frame, args []value) value { return zeroResult(fr.fn) }
		}
	}
}
