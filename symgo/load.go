package main

import (
	"fmt"
	"go/types"
	"os"
	"os/exec"
	"path/filepath"
	"sort"
	"strings"
	"time"

	"golang.org/x/tools/go/packages"
	"golang.org/x/tools/go/ssa"
	"golang.org/x/tools/go/ssa/ssautil"
)

var (
	gRepo       = "/repo"
	gVerif      = "/verif"
	gHarnessDir = "/verif/harness"
)

// childEnv is the environment for go list / go test children: the toolchain the baseline uses.
func childEnv() []string {
	var env []string
	for _, e := range os.Environ() {
		k := e[:strings.IndexByte(e+"=", '=')]
		switch k {
		case "GOFLAGS", "GOSUMDB", "GOTOOLCHAIN", "GOPROXY", "GOWORK":
			continue
		}
		env = append(env, e)
	}
	env = append(env, "GOPROXY=off", "GOTOOLCHAIN=auto", "GOFLAGS=", "GOWORK=off")
	return env
}

// overlayFiles maps virtual paths inside the repo to real files under /verif/harness (plus generated shims).
type overlaySet struct {
	virt map[string]string // virtual path -> real path
	tmp  string
}

func (o *overlaySet) cleanup() {
	if o.tmp != "" {
		os.RemoveAll(o.tmp)
	}
}

// buildOverlay collects every harness file and generates one shim per package directory that has test harnesses.
func buildOverlay() (*overlaySet, error) {
	tmp, err := os.MkdirTemp("", "symgo-ov-")
	if err != nil {
		return nil, err
	}
	o := &overlaySet{virt: map[string]string{}, tmp: tmp}
	shimDirs := map[string]bool{}
	err = filepath.Walk(gHarnessDir, func(p string, info os.FileInfo, err error) error {
		if err != nil || info.IsDir() || !strings.HasSuffix(p, ".go") {
			return err
		}
		rel, _ := filepath.Rel(gHarnessDir, p)
		o.virt[filepath.Join(gRepo, rel)] = p
		if strings.HasSuffix(p, "_test.go") {
			shimDirs[filepath.Dir(rel)] = true
		}
		return nil
	})
	if err != nil {
		return nil, err
	}
	for d := range shimDirs {
		pkgName, err := packageNameOf(filepath.Join(gRepo, d))
		if err != nil {
			return nil, err
		}
		real := filepath.Join(tmp, strings.ReplaceAll(d, "/", "_")+"_zz_verif_rt_test.go")
		if err := os.WriteFile(real, []byte(strings.Replace(shimSource, "package PKG", "package "+pkgName, 1)), 0o644); err != nil {
			return nil, err
		}
		o.virt[filepath.Join(gRepo, d, "zz_verif_rt_test.go")] = real
	}
	return o, nil
}

func packageNameOf(dir string) (string, error) {
	ents, err := os.ReadDir(dir)
	if err != nil {
		return "", err
	}
	for _, e := range ents {
		n := e.Name()
		if strings.HasSuffix(n, ".go") && !strings.HasSuffix(n, "_test.go") {
			b, err := os.ReadFile(filepath.Join(dir, n))
			if err != nil {
				continue
			}
			if strings.Contains(string(b), "//go:build ignore") || strings.Contains(string(b), "// +build ignore") {
				continue // generator programs (package main) living in the package directory
			}
			for _, line := range strings.Split(string(b), "\n") {
				line = strings.TrimSpace(line)
				if strings.HasPrefix(line, "package ") {
					f := strings.Fields(line)
					return f[1], nil
				}
			}
		}
	}
	return "", fmt.Errorf("no package clause found in %s", dir)
}

// gEagerSSA: build the SSA of every loaded package up front (check json "eager_ssa").
var gEagerSSA bool

func (o *overlaySet) packagesOverlay() map[string][]byte {
	m := map[string][]byte{}
	for v, r := range o.virt {
		b, err := os.ReadFile(r)
		if err == nil {
			m[v] = b
		}
	}
	return m
}

func (o *overlaySet) writeGoOverlay() (string, error) {
	var sb strings.Builder
	sb.WriteString("{\"Replace\":{")
	keys := make([]string, 0, len(o.virt))
	for k := range o.virt {
		keys = append(keys, k)
	}
	sort.Strings(keys)
	for i, k := range keys {
		if i > 0 {
			sb.WriteString(",")
		}
		fmt.Fprintf(&sb, "%q:%q", k, o.virt[k])
	}
	sb.WriteString("}}")
	p := filepath.Join(o.tmp, "overlay.json")
	return p, os.WriteFile(p, []byte(sb.String()), 0o644)
}

type Loaded struct {
	prog      *ssa.Program
	pkg       *ssa.Package // the in-package test variant
	toolchain string
	loadSecs  float64
	ssaSecs   float64
	npkgs     int
}

// loadPackage loads pkgDir (relative to the repo) with tests and all dependencies from source and builds SSA.
func loadPackage(pkgDir string, ov *overlaySet) (*Loaded, error) {
	t0 := time.Now()
	cfg := &packages.Config{
		Mode: packages.NeedName | packages.NeedFiles | packages.NeedCompiledGoFiles | packages.NeedImports |
			packages.NeedDeps | packages.NeedTypes | packages.NeedSyntax | packages.NeedTypesInfo | packages.NeedTypesSizes | packages.NeedEmbedFiles | packages.NeedModule,
		Dir:     gRepo,
		Tests:   true,
		Env:     childEnv(),
		Overlay: ov.packagesOverlay(),
	}
	initial, err := packages.Load(cfg, "./"+pkgDir)
	if err != nil {
		return nil, err
	}
	nerr := 0
	packages.Visit(initial, nil, func(p *packages.Package) {
		for _, e := range p.Errors {
			if nerr < 10 {
				fmt.Fprintf(os.Stderr, "load error: %s: %v\n", p.ID, e)
			}
			nerr++
		}
	})
	if nerr > 0 {
		return nil, fmt.Errorf("%d package load errors", nerr)
	}
	loadSecs := time.Since(t0).Seconds()
	t1 := time.Now()
	prog, pkgs := ssautil.AllPackages(initial, ssa.InstantiateGenerics|ssa.SanityCheckFunctions)
	var target *ssa.Package
	for i, p := range initial {
		// the variant compiled with in-package tests: ID "path [path.test]"
		if strings.Contains(p.ID, " [") && !strings.HasSuffix(p.PkgPath, "_test") && !strings.HasSuffix(p.PkgPath, ".test") {
			target = pkgs[i]
		}
	}
	if target == nil {
		for i, p := range initial {
			if !strings.HasSuffix(p.PkgPath, "_test") && !strings.HasSuffix(p.PkgPath, ".test") {
				target = pkgs[i]
			}
		}
	}
	if target == nil {
		return nil, fmt.Errorf("no target package for %s", pkgDir)
	}
	target.Build()
	// Lazily built packages (first call into fmt, time, ... reached while exploring http2's server code) made
	// x/tools' builder fail its own sanity check on a generic instance ("(http2.writeWindowUpdate).isNaN[int] has 2
	// parameters in signature but 1 after building"). Building before any exploration avoids that: fmt always
	// (cheap), the whole program when the check asks for it ("eager_ssa": true in the check json).
	if gEagerSSA {
		prog.Build()
	} else {
		for _, p := range prog.AllPackages() {
			if p.Pkg.Path() == "fmt" {
				p.Build()
			}
		}
	}
	ld := &Loaded{prog: prog, pkg: target, loadSecs: loadSecs, ssaSecs: time.Since(t1).Seconds(), npkgs: len(prog.AllPackages())}
	cmd := exec.Command("go", "version")
	cmd.Dir = gRepo
	cmd.Env = childEnv()
	if out, err := cmd.Output(); err == nil {
		ld.toolchain = strings.TrimSpace(string(out))
	}
	return ld, nil
}

// harnessFuncs lists the harness entry points of property id in the loaded package.
func (ld *Loaded) harnessFuncs(id string) []*ssa.Function {
	var fns []*ssa.Function
	for name, m := range ld.pkg.Members {
		if f, ok := m.(*ssa.Function); ok && strings.HasPrefix(name, "Verif"+id+"_") {
			fns = append(fns, f)
		}
	}
	sort.Slice(fns, func(i, j int) bool { return fns[i].Name() < fns[j].Name() })
	return fns
}

func (w *World) lookupType(pkgPath, name string) types.Type {
	p := w.prog.ImportedPackage(pkgPath)
	if p == nil {
		return nil
	}
	t := p.Type(name)
	if t == nil {
		return nil
	}
	return t.Object().Type()
}
