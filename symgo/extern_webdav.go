package main

// Intrinsics and stubs for the webdav harnesses (C43-C46).

import (
	"go/types"
)

// osENOENT builds the error values the os package returns for a path whose parent directory does not exist.
func (w *World) osENOENT() value {
	t := w.lookupType("syscall", "Errno")
	if t == nil {
		panic(engineError{"syscall.Errno not loaded"})
	}
	return iface{t: t, v: uint64(2)}
}

func (w *World) osPathError(op string, path value) value {
	t := w.lookupType("io/fs", "PathError")
	if t == nil {
		panic(engineError{"io/fs.PathError not loaded"})
	}
	var cell value = structure{op, path, w.osENOENT()}
	return iface{t: types.NewPointer(t), v: &cell}
}

func (w *World) osLinkError(op string, oldp, newp value) value {
	t := w.lookupType("os", "LinkError")
	if t == nil {
		panic(engineError{"os.LinkError not loaded"})
	}
	var cell value = structure{op, oldp, newp, w.osENOENT()}
	return iface{t: types.NewPointer(t), v: &cell}
}

func init() {
	// The os package as seen by webdav.Dir when the root directory does not exist (C45): every call fails with
	// ENOENT and reports the path it was given; RemoveAll of a non-existent path succeeds.
	externals["os.Mkdir"] = func(fr *frame, args []value) value { return fr.w.osPathError("mkdir", args[0]) }
	externals["os.OpenFile"] = func(fr *frame, args []value) value {
		return tuple{(*value)(nil), fr.w.osPathError("open", args[0])}
	}
	externals["os.Stat"] = func(fr *frame, args []value) value {
		return tuple{iface{}, fr.w.osPathError("stat", args[0])}
	}
	externals["os.Lstat"] = func(fr *frame, args []value) value {
		return tuple{iface{}, fr.w.osPathError("lstat", args[0])}
	}
	externals["os.Rename"] = func(fr *frame, args []value) value {
		return fr.w.osLinkError("rename", args[0], args[1])
	}
	externals["os.RemoveAll"] = func(fr *frame, args []value) value { return iface{} }
}

func init() {
	// reflect's package initialiser only caches a few *abi.Type values (uint8Type, stringType, ...); the engine does
	// not model runtime type descriptors, so they are nil. Any later use of reflect on them is still unsupported.
	externals["reflect.rtypeOf"] = func(fr *frame, args []value) value {
		if fr.w.inInit > 0 {
			return (*value)(nil)
		}
		unsupported("reflect.rtypeOf at %s", fr.w.where(fr.caller, fr.callpos))
		return nil
	}
}
