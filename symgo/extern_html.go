package main

// Intrinsics and callee summaries for the html checks (C39–C42).

import (
	"go/constant"

	"golang.org/x/tools/go/ssa"
)

// useRealCode is returned by an external that declines: the interpreter then executes the function's real body.
type useRealCode struct{}

func init() {
	externals["golang.org/x/net/html/atom.Lookup"] = extAtomLookup
}

// extAtomLookup is the callee summary of atom.Lookup (DESIGN.md §2.6): "the atom whose name equals s, else 0",
// decided by comparing s with the names of the defined atoms (entries of atom.table, read from the interpreted
// package's own memory) instead of inverting the FNV hash through the 512-way table mux. It is used only
// outside package html/atom (C42 checks the real function against exactly this specification) and only when s
// has symbolic bytes; concrete calls run the real code.
func extAtomLookup(fr *frame, args []value) value {
	w := fr.w
	if w.h == nil || w.h.Pkg == "html/atom" {
		return useRealCode{}
	}
	b := seqBytes(args[0])
	sym := false
	for _, x := range b {
		if _, ok := x.(*Term); ok {
			sym = true
		}
	}
	if !sym {
		return useRealCode{}
	}
	pkg := fr.fn.Pkg
	g, _ := pkg.Members["table"].(*ssa.Global)
	nc, _ := pkg.Members["atomText"].(*ssa.NamedConst)
	if g == nil || nc == nil {
		return useRealCode{}
	}
	text := constant.StringVal(nc.Value.Value)
	tab := (*w.globalAddr(g)).(array)
	tt := w.tt
	seen := map[uint64]bool{}
	for _, e := range tab {
		a, ok := e.(uint64)
		if !ok || a == 0 || seen[a] || int(a&0xff) != len(b) {
			continue
		}
		seen[a] = true
		start := int(a >> 8)
		if start+len(b) > len(text) {
			continue
		}
		name := text[start : start+len(b)]
		eq := tt.True
		possible := true
		for i, x := range b {
			switch x := x.(type) {
			case uint64:
				if byte(x) != name[i] {
					possible = false
				}
			case *Term:
				eq = tt.BAnd(eq, tt.Cmp(OpEq, x, tt.Const(uint64(name[i]), 8)))
			}
			if !possible {
				break
			}
		}
		if possible && w.branch(eq) {
			return a
		}
	}
	return uint64(0)
}
