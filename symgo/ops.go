package main

import (
	"fmt"
	"go/constant"
	"go/token"
	"go/types"
	"math"
	"unicode/utf8"

	"golang.org/x/tools/go/ssa"
)

func constValue(c *ssa.Const) value {
	if c.Value == nil {
		return zero(c.Type())
	}
	if t, ok := c.Type().Underlying().(*types.Basic); ok {
		switch {
		case t.Kind() == types.Bool || t.Kind() == types.UntypedBool:
			return constant.BoolVal(c.Value)
		case t.Info()&types.IsInteger != 0:
			w, signed := intInfo(t)
			if signed {
				return uint64(c.Int64()) & mask(w)
			}
			return c.Uint64() & mask(w)
		case t.Kind() == types.Float32:
			return float32(c.Float64())
		case t.Kind() == types.Float64 || t.Kind() == types.UntypedFloat:
			return c.Float64()
		case t.Kind() == types.Complex64 || t.Kind() == types.Complex128 || t.Kind() == types.UntypedComplex:
			return c.Complex128()
		case t.Info()&types.IsString != 0:
			if c.Value.Kind() == constant.String {
				return constant.StringVal(c.Value)
			}
			return string(rune(c.Int64()))
		}
	}
	panic(engineError{fmt.Sprintf("constValue: %s", c)})
}

// toTerm converts a scalar value of static type T to a term.
func (w *World) toTerm(v value, T types.Type) *Term {
	switch v := v.(type) {
	case *Term:
		return v
	case bool:
		return w.tt.Bool(v)
	case uint64:
		wd, _ := intInfo(T)
		return w.tt.Const(v, wd)
	}
	panic(engineError{fmt.Sprintf("toTerm: %T of type %s", v, T)})
}

func (w *World) toTermW(v value, wd uint8) *Term {
	switch v := v.(type) {
	case *Term:
		if v.W != wd {
			panic(engineError{fmt.Sprintf("toTermW: width %d, want %d", v.W, wd)})
		}
		return v
	case bool:
		return w.tt.Bool(v)
	case uint64:
		return w.tt.Const(v, wd)
	}
	panic(engineError{fmt.Sprintf("toTermW: %T", v)})
}

// fromTerm returns a concrete value when t is constant.
func fromTerm(t *Term) value {
	if t.IsConst() {
		if t.W == 0 {
			return t.K != 0
		}
		return t.K
	}
	return t
}

func isSym(v value) bool {
	_, ok := v.(*Term)
	return ok
}

// binop implements all arithmetic and logical binary operators.
func (w *World) binop(fr *frame, pos token.Pos, op token.Token, t, ty types.Type, x, y value) value {
	switch op {
	case token.EQL:
		return w.eqv(fr, t, x, y)
	case token.NEQ:
		return w.notv(w.eqv(fr, t, x, y))
	}
	// strings
	if isString(t) {
		switch op {
		case token.ADD:
			return strConcat(x, y)
		case token.LSS, token.LEQ, token.GTR, token.GEQ:
			return w.strOrder(op, x, y)
		}
	}
	switch x.(type) {
	case float64, float32:
		return floatBinop(op, x, y)
	case complex128:
		unsupported("complex arithmetic")
	}
	if _, ok := y.(float64); ok {
		return floatBinop(op, x, y)
	}
	if xb, ok := x.(bool); ok { // bool ops don't exist as BinOp except ==, !=
		_ = xb
		unsupported("binop %s on bool", op)
	}
	wd, signed := intInfo(t)
	// shifts: y has its own type
	if op == token.SHL || op == token.SHR {
		return w.shift(fr, pos, op, wd, signed, ty, x, y)
	}
	xc, xok := x.(uint64)
	yc, yok := y.(uint64)
	if xok && yok {
		switch op {
		case token.ADD:
			return (xc + yc) & mask(wd)
		case token.SUB:
			return (xc - yc) & mask(wd)
		case token.MUL:
			return (xc * yc) & mask(wd)
		case token.QUO:
			if yc == 0 {
				w.rtPanic(fr, pos, "integer divide by zero")
			}
			if signed {
				return evalBin(OpSDiv, wd, xc, yc)
			}
			return xc / yc
		case token.REM:
			if yc == 0 {
				w.rtPanic(fr, pos, "integer divide by zero")
			}
			if signed {
				return evalBin(OpSRem, wd, xc, yc)
			}
			return xc % yc
		case token.AND:
			return xc & yc
		case token.OR:
			return xc | yc
		case token.XOR:
			return xc ^ yc
		case token.AND_NOT:
			return xc &^ yc
		case token.LSS:
			if signed {
				return sext64(xc, wd) < sext64(yc, wd)
			}
			return xc < yc
		case token.LEQ:
			if signed {
				return sext64(xc, wd) <= sext64(yc, wd)
			}
			return xc <= yc
		case token.GTR:
			if signed {
				return sext64(xc, wd) > sext64(yc, wd)
			}
			return xc > yc
		case token.GEQ:
			if signed {
				return sext64(xc, wd) >= sext64(yc, wd)
			}
			return xc >= yc
		}
		panic(engineError{fmt.Sprintf("binop: bad op %s", op)})
	}
	// symbolic
	tx, ty2 := w.toTermW(x, wd), w.toTermW(y, wd)
	tt := w.tt
	var r *Term
	switch op {
	case token.ADD:
		r = tt.Bin(OpAdd, tx, ty2)
	case token.SUB:
		r = tt.Bin(OpSub, tx, ty2)
	case token.MUL:
		r = tt.Bin(OpMul, tx, ty2)
	case token.QUO, token.REM:
		nz := tt.BNot(tt.Cmp(OpEq, ty2, tt.Const(0, wd)))
		if !w.branch(nz) {
			w.rtPanic(fr, pos, "integer divide by zero")
		}
		o := OpUDiv
		switch {
		case op == token.QUO && signed:
			o = OpSDiv
		case op == token.REM && signed:
			o = OpSRem
		case op == token.REM:
			o = OpURem
		}
		r = tt.Bin(o, tx, ty2)
	case token.AND:
		r = tt.Bin(OpAnd, tx, ty2)
	case token.OR:
		r = tt.Bin(OpOr, tx, ty2)
	case token.XOR:
		r = tt.Bin(OpXor, tx, ty2)
	case token.AND_NOT:
		r = tt.Bin(OpAnd, tx, tt.Not(ty2))
	case token.LSS:
		if signed {
			r = tt.Cmp(OpSlt, tx, ty2)
		} else {
			r = tt.Cmp(OpUlt, tx, ty2)
		}
	case token.LEQ:
		if signed {
			r = tt.Cmp(OpSle, tx, ty2)
		} else {
			r = tt.Cmp(OpUle, tx, ty2)
		}
	case token.GTR:
		if signed {
			r = tt.Cmp(OpSlt, ty2, tx)
		} else {
			r = tt.Cmp(OpUlt, ty2, tx)
		}
	case token.GEQ:
		if signed {
			r = tt.Cmp(OpSle, ty2, tx)
		} else {
			r = tt.Cmp(OpUle, ty2, tx)
		}
	default:
		panic(engineError{fmt.Sprintf("binop: bad op %s", op)})
	}
	return fromTerm(r)
}

func (w *World) shift(fr *frame, pos token.Pos, op token.Token, wd uint8, signed bool, ty types.Type, x, y value) value {
	cw, csigned := intInfo(ty)
	if csigned {
		// negative shift count panics
		switch yv := y.(type) {
		case uint64:
			if sext64(yv, cw) < 0 {
				w.rtPanic(fr, pos, "negative shift amount")
			}
		case *Term:
			nonneg := w.tt.Cmp(OpSle, w.tt.Const(0, cw), yv)
			if !w.branch(nonneg) {
				w.rtPanic(fr, pos, "negative shift amount")
			}
		}
	}
	xc, xok := x.(uint64)
	yc, yok := y.(uint64)
	o := OpShl
	if op == token.SHR {
		if signed {
			o = OpAShr
		} else {
			o = OpLShr
		}
	}
	if xok && yok {
		if yc > 64 {
			yc = 64
		}
		return evalBin(o, wd, xc, yc)
	}
	tt := w.tt
	tx := w.toTermW(x, wd)
	if yok {
		if yc >= uint64(wd) {
			yc = uint64(wd)
		}
		return fromTerm(tt.Bin(o, tx, tt.Const(yc, wd)))
	}
	tc := y.(*Term)
	var amt *Term
	if cw <= wd {
		amt = tt.ZExt(tc, wd)
		return fromTerm(tt.Bin(o, tx, amt))
	}
	// count wider than operand: saturate
	big := tt.Cmp(OpUle, tt.Const(uint64(wd), cw), tc)
	amt = tt.Ite(big, tt.Const(uint64(wd), wd), tt.Extract(tc, wd-1, 0))
	return fromTerm(tt.Bin(o, tx, amt))
}

func floatBinop(op token.Token, x, y value) value {
	if xf, ok := x.(float32); ok {
		yf := y.(float32)
		switch op {
		case token.ADD:
			return xf + yf
		case token.SUB:
			return xf - yf
		case token.MUL:
			return xf * yf
		case token.QUO:
			return xf / yf
		case token.LSS:
			return xf < yf
		case token.LEQ:
			return xf <= yf
		case token.GTR:
			return xf > yf
		case token.GEQ:
			return xf >= yf
		}
	}
	xf, ok1 := x.(float64)
	yf, ok2 := y.(float64)
	if !ok1 || !ok2 {
		unsupported("floating-point operation on symbolic operand")
	}
	switch op {
	case token.ADD:
		return xf + yf
	case token.SUB:
		return xf - yf
	case token.MUL:
		return xf * yf
	case token.QUO:
		return xf / yf
	case token.LSS:
		return xf < yf
	case token.LEQ:
		return xf <= yf
	case token.GTR:
		return xf > yf
	case token.GEQ:
		return xf >= yf
	}
	panic(engineError{fmt.Sprintf("floatBinop: bad op %s", op)})
}

// notv negates a bool-or-Term.
func (w *World) notv(v value) value {
	switch v := v.(type) {
	case bool:
		return !v
	case *Term:
		return fromTerm(w.tt.BNot(v))
	}
	panic(engineError{fmt.Sprintf("notv: %T", v)})
}

func (w *World) andv(a, b value) value {
	if ab, ok := a.(bool); ok {
		if !ab {
			return false
		}
		return b
	}
	if bb, ok := b.(bool); ok {
		if !bb {
			return false
		}
		return a
	}
	return fromTerm(w.tt.BAnd(a.(*Term), b.(*Term)))
}

func (w *World) orv(a, b value) value {
	return w.notv(w.andv(w.notv(a), w.notv(b)))
}

// strOrder compares strings lexicographically.
func (w *World) strOrder(op token.Token, x, y value) value {
	xs, ok1 := x.(string)
	ys, ok2 := y.(string)
	if ok1 && ok2 {
		switch op {
		case token.LSS:
			return xs < ys
		case token.LEQ:
			return xs <= ys
		case token.GTR:
			return xs > ys
		case token.GEQ:
			return xs >= ys
		}
	}
	switch op {
	case token.GTR:
		return w.strOrder(token.LSS, y, x)
	case token.GEQ:
		return w.strOrder(token.LEQ, y, x)
	}
	xb, yb := strBytes(x), strBytes(y)
	// less(i): comparing suffixes from i
	n := len(xb)
	if len(yb) < n {
		n = len(yb)
	}
	var res value
	// base: all first n bytes equal
	if op == token.LSS {
		res = len(xb) < len(yb)
	} else {
		res = len(xb) <= len(yb)
	}
	for i := n - 1; i >= 0; i-- {
		a, b := w.toTermW(xb[i], 8), w.toTermW(yb[i], 8)
		lt := fromTerm(w.tt.Cmp(OpUlt, a, b))
		eq := fromTerm(w.tt.Cmp(OpEq, a, b))
		res = w.orv(lt, w.andv(eq, res))
	}
	return res
}

// eqv returns x == y for type t as bool or *Term.
func (w *World) eqv(fr *frame, t types.Type, x, y value) value {
	switch xv := x.(type) {
	case bool:
		switch yv := y.(type) {
		case bool:
			return xv == yv
		case *Term:
			return fromTerm(w.tt.Cmp(OpEq, w.tt.Bool(xv), yv))
		}
	case uint64:
		switch yv := y.(type) {
		case uint64:
			return xv == yv
		case *Term:
			return fromTerm(w.tt.Cmp(OpEq, w.tt.Const(xv, yv.W), yv))
		case *value: // uintptr/unsafe compare
			return false
		}
	case *Term:
		switch yv := y.(type) {
		case *Term:
			return fromTerm(w.tt.Cmp(OpEq, xv, yv))
		case uint64:
			return fromTerm(w.tt.Cmp(OpEq, xv, w.tt.Const(yv, xv.W)))
		case bool:
			return fromTerm(w.tt.Cmp(OpEq, xv, w.tt.Bool(yv)))
		}
	case float64:
		return xv == y.(float64)
	case float32:
		return xv == y.(float32)
	case complex128:
		return xv == y.(complex128)
	case string:
		if ys, ok := y.(string); ok {
			return xv == ys
		}
		return w.strEq(x, y)
	case *symstr:
		return w.strEq(x, y)
	case *opaqueStr:
		unsupported("comparison of opaque string (%s)", xv.tag)
	case *value:
		switch yv := y.(type) {
		case *value:
			return xv == yv
		case *symptr:
			return w.symptrEq(yv, xv)
		}
	case *symptr:
		switch yv := y.(type) {
		case *value:
			return w.symptrEq(xv, yv)
		}
		unsupported("comparison of two symbolic pointers")
	case *channel:
		return xv == y.(*channel)
	case structure:
		ys := y.(structure)
		st := t.Underlying().(*types.Struct)
		var res value = true
		for i := 0; i < st.NumFields(); i++ {
			if st.Field(i).Name() == "_" {
				continue
			}
			res = w.andv(res, w.eqv(fr, st.Field(i).Type(), xv[i], ys[i]))
			if res == false {
				return false
			}
		}
		return res
	case array:
		ya := y.(array)
		et := t.Underlying().(*types.Array).Elem()
		var res value = true
		for i := range xv {
			res = w.andv(res, w.eqv(fr, et, xv[i], ya[i]))
			if res == false {
				return false
			}
		}
		return res
	case iface:
		yi, ok := y.(iface)
		if !ok {
			panic(engineError{fmt.Sprintf("eqv: iface vs %T", y)})
		}
		if xv.t == nil || yi.t == nil {
			return xv.t == nil && yi.t == nil
		}
		if !types.Identical(xv.t, yi.t) {
			return false
		}
		if !types.Comparable(xv.t) {
			panic(targetPanic{v: iface{w.runtimeErrorT, "runtime error: comparing uncomparable type " + xv.t.String()}, where: w.where(fr, token.NoPos)})
		}
		return w.eqv(fr, xv.t, xv.v, yi.v)
	case *omap:
		// only comparison with nil is legal
		ym, _ := y.(*omap)
		return xv == nil && ym == nil || (xv == ym)
	case []value:
		ys, _ := y.([]value)
		return xv == nil && ys == nil
	case *ssa.Function:
		switch yf := y.(type) {
		case *ssa.Function:
			return xv == yf
		case *closure:
			return false
		}
	case *closure:
		switch yf := y.(type) {
		case *ssa.Function:
			return false
		case *closure:
			return xv == yf
		}
	case *ssa.Builtin:
		return false
	}
	panic(engineError{fmt.Sprintf("eqv: comparing %T with %T (type %s)", x, y, t)})
}

func (w *World) strEq(x, y value) value {
	if _, ok := x.(*opaqueStr); ok {
		unsupported("comparison of opaque string")
	}
	if _, ok := y.(*opaqueStr); ok {
		unsupported("comparison of opaque string")
	}
	if strLen(x) != strLen(y) {
		return false
	}
	xb, yb := strBytes(x), strBytes(y)
	var res value = true
	for i := range xb {
		xc, ok1 := xb[i].(uint64)
		yc, ok2 := yb[i].(uint64)
		if ok1 && ok2 {
			if xc != yc {
				return false
			}
			continue
		}
		res = w.andv(res, fromTerm(w.tt.Cmp(OpEq, w.toTermW(xb[i], 8), w.toTermW(yb[i], 8))))
		if res == false {
			return false
		}
	}
	return res
}

func (w *World) unop(fr *frame, instr *ssa.UnOp, x value) value {
	switch instr.Op {
	case token.ARROW:
		return w.chanRecv(fr, instr, x)
	case token.MUL:
		return w.loadFrom(fr, instr.Pos(), mustDeref(instr.X.Type()), x)
	case token.SUB:
		switch xv := x.(type) {
		case uint64:
			wd, _ := intInfo(instr.Type())
			return (-xv) & mask(wd)
		case *Term:
			return fromTerm(w.tt.Neg(xv))
		case float64:
			return -xv
		case float32:
			return -xv
		}
	case token.NOT:
		return w.notv(x)
	case token.XOR:
		switch xv := x.(type) {
		case uint64:
			wd, _ := intInfo(instr.Type())
			return (^xv) & mask(wd)
		case *Term:
			return fromTerm(w.tt.Not(xv))
		}
	}
	panic(engineError{fmt.Sprintf("invalid unary op %s %T", instr.Op, x)})
}

// typeAssert implements x.(T).
func (w *World) typeAssert(fr *frame, instr *ssa.TypeAssert, itf iface) value {
	var v value
	err := ""
	if itf.t == nil {
		err = fmt.Sprintf("interface conversion: interface is nil, not %s", instr.AssertedType)
	} else if idst, ok := instr.AssertedType.Underlying().(*types.Interface); ok {
		v = itf
		if meth, _ := types.MissingMethod(itf.t, idst, true); meth != nil {
			err = fmt.Sprintf("interface conversion: %v is not %v: missing method %s", itf.t, idst, meth.Name())
		}
	} else if types.Identical(itf.t, instr.AssertedType) {
		v = itf.v
	} else {
		err = fmt.Sprintf("interface conversion: interface is %s, not %s", itf.t, instr.AssertedType)
	}
	if err != "" {
		if !instr.CommaOk {
			panic(targetPanic{v: iface{w.runtimeErrorT, err}, where: w.where(fr, instr.Pos())})
		}
		return tuple{zero(instr.AssertedType), false}
	}
	if instr.CommaOk {
		return tuple{v, true}
	}
	return v
}

// concreteInt forces an integer value to a concrete one by forking over its feasible values.
func (w *World) concreteInt(fr *frame, v value, T types.Type, limit int) uint64 {
	switch v := v.(type) {
	case uint64:
		return v
	case *Term:
		return w.concretize(v, limit)
	}
	panic(engineError{fmt.Sprintf("concreteInt: %T", v)})
}

// concreteLen concretises a length/capacity argument of make; negative or huge values panic like Go does.
func (w *World) concreteLen(fr *frame, pos token.Pos, v value, T types.Type, msg string) int {
	wd, signed := intInfo(T)
	const maxAlloc = 1 << 26
	switch v := v.(type) {
	case uint64:
		n := int64(v)
		if signed {
			n = sext64(v, wd)
		}
		if n < 0 || (!signed && v > math.MaxInt64) {
			w.rtPanic(fr, pos, msg)
		}
		if n > maxAlloc {
			if n >= 1<<47 {
				w.rtPanic(fr, pos, msg)
			}
			panic(engineError{fmt.Sprintf("allocation of %d elements at %s", n, w.where(fr, pos))})
		}
		return int(n)
	case *Term:
		// in range?
		tt := w.tt
		var ok *Term
		if signed {
			ok = tt.BAnd(tt.Cmp(OpSle, tt.Const(0, wd), v), tt.Cmp(OpSlt, v, tt.Const(1<<47, wd)))
			if wd < 48 {
				ok = tt.Cmp(OpSle, tt.Const(0, wd), v)
			}
		} else {
			ok = tt.True
			if wd >= 48 {
				ok = tt.Cmp(OpUlt, v, tt.Const(1<<47, wd))
			}
		}
		if !w.branch(ok) {
			w.rtPanic(fr, pos, msg)
		}
		// attacker-sized allocation: anything above the engine's cap is reported as such
		if wd > 26 {
			small := tt.Cmp(OpUle, v, tt.Const(maxAlloc, wd))
			if !w.branch(small) {
				w.hugeAlloc(fr, pos, v)
			}
		}
		return int(w.concretize(v, 4096))
	}
	panic(engineError{fmt.Sprintf("concreteLen: %T", v)})
}

// conv converts x from t_src to t_dst.
func (w *World) conv(fr *frame, pos token.Pos, t_dst, t_src types.Type, x value) value {
	ut_src := t_src.Underlying()
	ut_dst := t_dst.Underlying()

	// type parameters' core types (MultiConvert after instantiation is concrete)
	switch ut_dst := ut_dst.(type) {
	case *types.Signature:
		return x
	case *types.Pointer:
		switch ut_src := ut_src.(type) {
		case *types.Pointer:
			return x
		case *types.Basic:
			if ut_src.Kind() == types.UnsafePointer {
				return x
			}
		}
	case *types.Slice:
		// string -> []byte / []rune
		switch ut_dst.Elem().Underlying().(*types.Basic).Kind() {
		case types.Rune:
			s, ok := x.(string)
			if !ok {
				// decode symbolic string: run decode through utf8 on concretised bytes is not possible; restrict
				return w.symStringToRunes(fr, x)
			}
			var res []value
			for _, r := range s {
				res = append(res, uint64(uint32(r)))
			}
			return res
		case types.Byte:
			b := strBytes(x)
			res := make([]value, len(b))
			copy(res, b)
			return res
		}
	case *types.Basic:
		if ut_dst.Kind() == types.UnsafePointer {
			return x // pointer representation is kept
		}
		if ut_dst.Info()&types.IsString != 0 {
			switch ut_src := ut_src.(type) {
			case *types.Slice:
				sl := x.([]value)
				switch ut_src.Elem().Underlying().(*types.Basic).Kind() {
				case types.Byte:
					return mkString(sl)
				case types.Rune:
					var buf []byte
					for _, r := range sl {
						rc, ok := r.(uint64)
						if !ok {
							return w.symRunesToString(fr, sl)
						}
						buf = utf8.AppendRune(buf, rune(int32(rc)))
					}
					return string(buf)
				}
			case *types.Basic:
				if ut_src.Info()&types.IsString != 0 {
					return x
				}
				if ut_src.Info()&types.IsInteger != 0 {
					// string(rune)
					wd, signed := intInfo(ut_src)
					switch xv := x.(type) {
					case uint64:
						r := int64(xv)
						if signed {
							r = sext64(xv, wd)
						}
						if r < 0 || r > utf8.MaxRune {
							return string(utf8.RuneError)
						}
						return string(rune(r))
					case *Term:
						// encode via utf8.AppendRune semantics on a symbolic rune: fork over length classes
						return w.symRuneToString(fr, xv, signed)
					}
				}
			}
		}
		// numeric conversions
		if ut_dst.Info()&types.IsInteger != 0 {
			dw, _ := intInfo(ut_dst)
			switch xv := x.(type) {
			case uint64:
				sw, ssigned := intInfo(ut_src)
				if ssigned {
					return uint64(sext64(xv, sw)) & mask(dw)
				}
				return xv & mask(dw)
			case *Term:
				_, ssigned := intInfo(ut_src)
				if dw <= xv.W {
					return fromTerm(w.tt.Extract(xv, dw-1, 0))
				}
				if ssigned {
					return fromTerm(w.tt.SExt(xv, dw))
				}
				return fromTerm(w.tt.ZExt(xv, dw))
			case float64:
				_, dsigned := intInfo(ut_dst)
				if dsigned {
					return uint64(int64(xv)) & mask(dw)
				}
				return uint64(xv) & mask(dw)
			case float32:
				_, dsigned := intInfo(ut_dst)
				if dsigned {
					return uint64(int64(xv)) & mask(dw)
				}
				return uint64(xv) & mask(dw)
			case *value:
				unsupported("conversion of pointer to integer (unsafe) at %s", w.where(fr, pos))
			}
		}
		if ut_dst.Info()&types.IsFloat != 0 {
			var f float64
			switch xv := x.(type) {
			case uint64:
				sw, ssigned := intInfo(ut_src)
				if ssigned {
					f = float64(sext64(xv, sw))
				} else {
					f = float64(xv)
				}
			case float64:
				f = xv
			case float32:
				f = float64(xv)
			case *Term:
				unsupported("conversion of symbolic integer to float at %s", w.where(fr, pos))
			default:
				panic(engineError{fmt.Sprintf("conv to float from %T", x)})
			}
			if ut_dst.Kind() == types.Float32 {
				return float32(f)
			}
			return f
		}
		if ut_dst.Info()&types.IsComplex != 0 {
			if c, ok := x.(complex128); ok {
				return c
			}
		}
	}
	panic(engineError{fmt.Sprintf("unsupported conversion: %s -> %s (%T) at %s", t_src, t_dst, x, w.where(fr, pos))})
}

func (w *World) symStringToRunes(fr *frame, x value) value {
	b := strBytes(x)
	// all bytes must be provably ASCII or we concretise class by forking per byte
	var res []value
	for i := 0; i < len(b); {
		r, size := w.decodeRune(b[i:])
		res = append(res, r)
		i += size
	}
	return res
}

// decodeRune decodes the first UTF-8 sequence of b (symbolic bytes allowed) by forking over the
// structural cases; returns the rune (uint64 or 32-bit *Term) and the size.
func (w *World) decodeRune(b []value) (value, int) {
	if len(b) == 0 {
		return uint64(utf8.RuneError), 0
	}
	allc := true
	n := len(b)
	if n > 4 {
		n = 4
	}
	for _, x := range b[:n] {
		if isSym(x) {
			allc = false
		}
	}
	if allc {
		bs := make([]byte, n)
		for i := range bs {
			bs[i] = byte(b[i].(uint64))
		}
		r, size := utf8.DecodeRune(bs)
		return uint64(uint32(r)), size
	}
	tt := w.tt
	b0 := w.toTermW(b[0], 8)
	if w.branch(tt.Cmp(OpUlt, b0, tt.Const(0x80, 8))) {
		return fromTerm(tt.ZExt(b0, 32)), 1
	}
	bad := func() (value, int) { return uint64(utf8.RuneError), 1 }
	cont := func(i int, lo, hi uint64) (*Term, bool) {
		if i >= len(b) {
			return nil, false
		}
		bi := w.toTermW(b[i], 8)
		ok := tt.BAnd(tt.Cmp(OpUle, tt.Const(lo, 8), bi), tt.Cmp(OpUle, bi, tt.Const(hi, 8)))
		if !w.branch(ok) {
			return nil, false
		}
		return bi, true
	}
	in := func(lo, hi uint64) bool {
		return w.branch(tt.BAnd(tt.Cmp(OpUle, tt.Const(lo, 8), b0), tt.Cmp(OpUle, b0, tt.Const(hi, 8))))
	}
	z := func(t *Term) *Term { return tt.ZExt(t, 32) }
	sh := func(t *Term, n uint64) *Term { return tt.Bin(OpShl, t, tt.Const(n, 32)) }
	and := func(t *Term, m uint64) *Term { return tt.Bin(OpAnd, t, tt.Const(m, 32)) }
	or := func(a, b *Term) *Term { return tt.Bin(OpOr, a, b) }
	switch {
	case in(0xC2, 0xDF):
		b1, ok := cont(1, 0x80, 0xBF)
		if !ok {
			return bad()
		}
		return fromTerm(or(sh(and(z(b0), 0x1F), 6), and(z(b1), 0x3F))), 2
	case in(0xE0, 0xEF):
		lo, hi := uint64(0x80), uint64(0xBF)
		if w.branch(tt.Cmp(OpEq, b0, tt.Const(0xE0, 8))) {
			lo = 0xA0
		} else if w.branch(tt.Cmp(OpEq, b0, tt.Const(0xED, 8))) {
			hi = 0x9F
		}
		b1, ok := cont(1, lo, hi)
		if !ok {
			return bad()
		}
		b2, ok := cont(2, 0x80, 0xBF)
		if !ok {
			return bad()
		}
		return fromTerm(or(or(sh(and(z(b0), 0x0F), 12), sh(and(z(b1), 0x3F), 6)), and(z(b2), 0x3F))), 3
	case in(0xF0, 0xF4):
		lo, hi := uint64(0x80), uint64(0xBF)
		if w.branch(tt.Cmp(OpEq, b0, tt.Const(0xF0, 8))) {
			lo = 0x90
		} else if w.branch(tt.Cmp(OpEq, b0, tt.Const(0xF4, 8))) {
			hi = 0x8F
		}
		b1, ok := cont(1, lo, hi)
		if !ok {
			return bad()
		}
		b2, ok := cont(2, 0x80, 0xBF)
		if !ok {
			return bad()
		}
		b3, ok := cont(3, 0x80, 0xBF)
		if !ok {
			return bad()
		}
		return fromTerm(or(or(or(sh(and(z(b0), 0x07), 18), sh(and(z(b1), 0x3F), 12)), sh(and(z(b2), 0x3F), 6)), and(z(b3), 0x3F))), 4
	}
	return bad()
}

// symRuneToString encodes a symbolic rune as UTF-8 by forking over the length classes.
func (w *World) symRuneToString(fr *frame, r *Term, signed bool) value {
	tt := w.tt
	r32 := r
	if r.W > 32 {
		// out of range for wide types -> RuneError
		var inr *Term
		if signed {
			inr = tt.BAnd(tt.Cmp(OpSle, tt.Const(0, r.W), r), tt.Cmp(OpSle, r, tt.Const(utf8.MaxRune, r.W)))
		} else {
			inr = tt.Cmp(OpUle, r, tt.Const(utf8.MaxRune, r.W))
		}
		if !w.branch(inr) {
			return string(utf8.RuneError)
		}
		r32 = tt.Extract(r, 31, 0)
	} else if r.W < 32 {
		if signed {
			r32 = tt.SExt(r, 32)
		} else {
			r32 = tt.ZExt(r, 32)
		}
	}
	return mkString(w.encodeRune(r32))
}

func (w *World) encodeRune(r32 *Term) []value {
	tt := w.tt
	c := func(k uint64) *Term { return tt.Const(k, 32) }
	b8 := func(t *Term) value { return fromTerm(tt.Extract(t, 7, 0)) }
	shr := func(t *Term, n uint64) *Term { return tt.Bin(OpLShr, t, c(n)) }
	and := func(t *Term, m uint64) *Term { return tt.Bin(OpAnd, t, c(m)) }
	or := func(t *Term, m uint64) *Term { return tt.Bin(OpOr, t, c(m)) }
	errb := []value{uint64(0xEF), uint64(0xBF), uint64(0xBD)}
	switch {
	case w.branch(tt.Cmp(OpUlt, r32, c(0x80))):
		return []value{b8(r32)}
	case w.branch(tt.Cmp(OpUlt, r32, c(0x800))):
		return []value{b8(or(shr(r32, 6), 0xC0)), b8(or(and(r32, 0x3F), 0x80))}
	case w.branch(tt.BAnd(tt.Cmp(OpUle, c(0xD800), r32), tt.Cmp(OpUle, r32, c(0xDFFF)))):
		return errb
	case w.branch(tt.Cmp(OpUlt, r32, c(0x10000))):
		return []value{b8(or(shr(r32, 12), 0xE0)), b8(or(and(shr(r32, 6), 0x3F), 0x80)), b8(or(and(r32, 0x3F), 0x80))}
	case w.branch(tt.Cmp(OpUle, r32, c(utf8.MaxRune))):
		return []value{b8(or(shr(r32, 18), 0xF0)), b8(or(and(shr(r32, 12), 0x3F), 0x80)), b8(or(and(shr(r32, 6), 0x3F), 0x80)), b8(or(and(r32, 0x3F), 0x80))}
	}
	return errb
}

func (w *World) symRunesToString(fr *frame, sl []value) value {
	var out []value
	for _, r := range sl {
		switch rv := r.(type) {
		case uint64:
			for _, b := range []byte(string(rune(int32(rv)))) {
				out = append(out, uint64(b))
			}
		case *Term:
			out = append(out, w.encodeRune(rv)...)
		}
	}
	return mkString(out)
}

func (w *World) sliceToArrayPointer(fr *frame, instr *ssa.SliceToArrayPointer, x value) value {
	at := mustDeref(instr.Type()).Underlying().(*types.Array)
	sl := x.([]value)
	if int(at.Len()) > len(sl) {
		w.rtPanic(fr, instr.Pos(), fmt.Sprintf("cannot convert slice with length %d to array or pointer to array with length %d", len(sl), at.Len()))
	}
	if sl == nil {
		return (*value)(nil)
	}
	// The array view shares the slice's cells: represent as pointer to an `array` aliasing the cells.
	var cell value = array(sl[:at.Len():at.Len()])
	return &cell
}
