package main

// Per-worker cache of branch-feasibility queries. The answer to a sliced query depends only on the set of
// (hash-consed) terms sent to the solver, so an identical slice met again on another path (typical for harnesses
// that are products of independent parts: every fork in part A re-executes part B) is answered from the cache.
// Keys are term IDs of the worker's term table; the cache is dropped when the table is renewed.

import (
	"fmt"
	"os"
	"sort"
	"strconv"
	"strings"
	"sync"
	"sync/atomic"
)

type qcEnt struct {
	res SatResult
	m   Model
}

type qcache struct {
	tt *TermTable
	m  map[string]qcEnt
}

var (
	qcMu   sync.Mutex
	qcAll  = map[*World]*qcache{}
	qcHits int64
)

func (w *World) qc() *qcache {
	qcMu.Lock()
	c := qcAll[w]
	if c == nil {
		c = &qcache{}
		qcAll[w] = c
	}
	qcMu.Unlock()
	if c.tt != w.tt || len(c.m) > 400_000 {
		c.tt = w.tt
		c.m = map[string]qcEnt{}
	}
	return c
}

// qcKey: IDs of the path-condition slice (sorted) followed by the ID of the queried condition (last element).
func qcKey(terms []*Term) string {
	ids := make([]int, len(terms)-1)
	for i := range ids {
		ids[i] = terms[i].ID
	}
	sort.Ints(ids)
	var b strings.Builder
	for _, id := range ids {
		b.WriteString(strconv.Itoa(id))
		b.WriteByte(',')
	}
	b.WriteByte('|')
	b.WriteString(strconv.Itoa(terms[len(terms)-1].ID))
	return b.String()
}

func (w *World) qcGet(key string) (SatResult, Model, bool) {
	e, ok := w.qc().m[key]
	if ok {
		atomic.AddInt64(&qcHits, 1)
	}
	return e.res, e.m, ok
}

func (w *World) qcPut(key string, res SatResult, m Model) {
	if res == ResUnknown {
		return
	}
	w.qc().m[key] = qcEnt{res, m}
}

// Fork statistics (development aid): SYMGO_FORKSTAT=1 prints the conditions that forked most often.
var (
	forkStatOn = os.Getenv("SYMGO_FORKSTAT") != ""
	forkStatMu sync.Mutex
	forkStat   = map[string]int{}
)

func noteFork(c *Term) {
	if !forkStatOn {
		return
	}
	s := TermString(c, 3)
	forkStatMu.Lock()
	forkStat[s]++
	forkStatMu.Unlock()
}

func printForkStat() {
	if !forkStatOn {
		return
	}
	type kv struct {
		k string
		v int
	}
	var all []kv
	for k, v := range forkStat {
		all = append(all, kv{k, v})
	}
	sort.Slice(all, func(i, j int) bool { return all[i].v > all[j].v })
	for i, e := range all {
		if i >= 25 {
			break
		}
		fmt.Fprintf(os.Stderr, "FORK %6d  %s\n", e.v, e.k)
	}
}
