package main

// Complete enumeration for tiny branch-feasibility queries (≤ 8 free bits).

func sliceBits(vars map[*Term]bool) int {
	n := 0
	for v := range vars {
		if v.W == 0 {
			n++
		} else {
			n += int(v.W)
		}
		if n > 64 {
			return n
		}
	}
	return n
}

// enumerate decides the conjunction of terms by trying every assignment of the variables.
func enumerate(terms []*Term, vars map[*Term]bool) (SatResult, Model) {
	vs := make([]*Term, 0, len(vars))
	total := 0
	for v := range vars {
		vs = append(vs, v)
		if v.W == 0 {
			total++
		} else {
			total += int(v.W)
		}
	}
	m := Model{}
	memo := map[*Term]uint64{}
	for a := uint64(0); a < uint64(1)<<uint(total); a++ {
		x := a
		for _, v := range vs {
			w := uint(v.W)
			if w == 0 {
				w = 1
			}
			m[v.Name] = x & ((1 << w) - 1)
			x >>= w
		}
		clear(memo)
		ok := true
		for _, t := range terms {
			if Eval(t, m, memo) == 0 {
				ok = false
				break
			}
		}
		if ok {
			out := make(Model, len(m))
			for k, v := range m {
				out[k] = v
			}
			return ResSat, out
		}
	}
	return ResUnsat, nil
}
