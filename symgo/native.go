package main

import (
	"bufio"
	"bytes"
	"encoding/json"
	"fmt"
	"os"
	"os/exec"
	"path/filepath"
	"sort"
	"strings"
	"sync/atomic"
	"time"
)

type nativeResult struct {
	Status string      `json:"status"`
	Obs    [][2]string `json:"obs"`
	Reach  []string    `json:"reach"`
	Known  []string    `json:"known"`
}

var gNativeTimeout = "20m"

// runNative executes the vectors against the real build of pkgDir (go test -overlay) and returns one result per vector.
func runNative(ov *overlaySet, pkgDir string, vecs []*Vector) ([]nativeResult, error) {
	tmp, err := os.MkdirTemp("", "symgo-native-")
	if err != nil {
		return nil, err
	}
	defer os.RemoveAll(tmp)
	vf := filepath.Join(tmp, "vectors.jsonl")
	rf := filepath.Join(tmp, "results.jsonl")
	var buf bytes.Buffer
	for _, v := range vecs {
		b, _ := json.Marshal(v)
		buf.Write(b)
		buf.WriteByte('\n')
	}
	if err := os.WriteFile(vf, buf.Bytes(), 0o644); err != nil {
		return nil, err
	}
	ovPath, err := ov.writeGoOverlay()
	if err != nil {
		return nil, err
	}
	cmd := exec.Command("go", "test", "-vet=off", "-count=1", "-timeout", gNativeTimeout, "-overlay", ovPath, "-run", "^TestVerifReplay$", "./"+pkgDir)
	cmd.Dir = gRepo
	cmd.Env = append(childEnv(), "VERIF_VECTORS="+vf, "VERIF_RESULTS="+rf)
	out, err := cmd.CombinedOutput()
	f, ferr := os.Open(rf)
	if ferr != nil {
		return nil, fmt.Errorf("native run produced no results: %v\n%s", err, tail(string(out), 2000))
	}
	defer f.Close()
	var res []nativeResult
	sc := bufio.NewScanner(f)
	sc.Buffer(make([]byte, 1<<20), 1<<26)
	for sc.Scan() {
		var r nativeResult
		if e := json.Unmarshal(sc.Bytes(), &r); e != nil {
			return nil, e
		}
		res = append(res, r)
	}
	if len(res) != len(vecs) {
		// the process died on a vector (fatal error, stack overflow, os.Exit): mark the next one as crashed
		for len(res) < len(vecs) {
			st := "skipped"
			if len(res) == len(res) {
				st = "panic:process crashed: " + tail(string(out), 300)
			}
			res = append(res, nativeResult{Status: st})
			break
		}
		for len(res) < len(vecs) {
			res = append(res, nativeResult{Status: "skipped"})
		}
	}
	return res, nil
}

func tail(s string, n int) string {
	if len(s) > n {
		return s[len(s)-n:]
	}
	return s
}

// compareNative returns "" if the native outcome equals the engine's prediction for an "ok" path.
func compareNative(v *Vector, n nativeResult) string {
	if n.Status != "ok" {
		return "native status " + n.Status + ", engine predicted ok"
	}
	if len(n.Obs) != len(v.Obs) {
		return fmt.Sprintf("observation count native=%d engine=%d", len(n.Obs), len(v.Obs))
	}
	for i := range v.Obs {
		if v.Obs[i] != n.Obs[i] {
			return fmt.Sprintf("observation %d: native=%v engine=%v", i, n.Obs[i], v.Obs[i])
		}
	}
	nr := append([]string(nil), n.Reach...)
	sort.Strings(nr)
	if strings.Join(nr, ",") != strings.Join(v.Reach, ",") {
		return fmt.Sprintf("reach markers native=%v engine=%v", nr, v.Reach)
	}
	return ""
}

type replayFile struct {
	Property string   `json:"property"`
	Pkg      string   `json:"pkg"`
	Harness  string   `json:"harness"`
	Kind     string   `json:"kind"`
	Label    string   `json:"label"`
	Where    string   `json:"where"`
	Native   string   `json:"native_status"`
	Vector   *Vector  `json:"vector"`
	Inputs   []string `json:"inputs"`
}

func writeReplay(id, pkg string, v *Violation, vec *Vector, native string) (string, error) {
	dir := filepath.Join(gVerif, "replays", id)
	if err := os.MkdirAll(dir, 0o755); err != nil {
		return "", err
	}
	rf := replayFile{Property: id, Pkg: pkg, Harness: v.Harness, Kind: v.Kind, Label: v.Label, Where: v.Where, Native: native, Vector: vec}
	for i, l := range vec.Labels {
		rf.Inputs = append(rf.Inputs, fmt.Sprintf("%s=%d", l, vec.Values[i]))
	}
	b, _ := json.MarshalIndent(rf, "", " ")
	h := uint32(2166136261)
	for _, c := range b {
		h = (h ^ uint32(c)) * 16777619
	}
	p := filepath.Join(dir, fmt.Sprintf("%s-%08x.json", v.Harness, h))
	return p, os.WriteFile(p, b, 0o644)
}

// cmdReplay re-runs a recorded counterexample natively; exit 1 iff it reproduces.
func cmdReplay(args []string) int {
	if len(args) < 1 {
		fmt.Println("usage: symgo replay <file>")
		return 2
	}
	b, err := os.ReadFile(args[0])
	if err != nil {
		fmt.Println("ERROR:", err)
		return 2
	}
	var rf replayFile
	if err := json.Unmarshal(b, &rf); err != nil {
		fmt.Println("ERROR:", err)
		return 2
	}
	ov, err := buildOverlay()
	if err != nil {
		fmt.Println("ERROR:", err)
		return 2
	}
	defer ov.cleanup()
	if rf.Kind == "nontermination" {
		// the recorded input must not terminate natively either: a 60 s test deadline, no result = reproduced
		gNativeTimeout = "60s"
		res, err := runNative(ov, rf.Pkg, []*Vector{rf.Vector})
		if err == nil && len(res) == 1 && (res[0].Status == "ok" || strings.HasPrefix(res[0].Status, "assert:")) {
			fmt.Printf("replay %s %s: the native run terminated (%s)\n", rf.Property, rf.Harness, res[0].Status)
			return 0
		}
		fmt.Printf("replay %s %s: the native run did not finish within 60 s\n", rf.Property, rf.Harness)
		fmt.Printf("VIOLATION property=%s replay=%s\n", rf.Property, args[0])
		return 1
	}
	res, err := runNative(ov, rf.Pkg, []*Vector{rf.Vector})
	if err != nil {
		fmt.Println("ERROR:", err)
		return 2
	}
	fmt.Printf("replay %s %s: native status = %s\n", rf.Property, rf.Harness, res[0].Status)
	if strings.HasPrefix(res[0].Status, "assert:") || strings.HasPrefix(res[0].Status, "panic:") {
		fmt.Printf("VIOLATION property=%s replay=%s\n", rf.Property, args[0])
		return 1
	}
	return 0
}

// ---------------------------------------------------------------------
// evidence

func writeEvidence(id, tier string, seed int, cfg *CheckCfg, ld *Loaded, results []*HarnessResult, validated, mismatches, violations int,
	known map[string]int, vacuous []string, wall float64) error {
	states, transitions, evals, nontriv := 0, 0, 0, 0
	var samples []any
	var harnesses []map[string]any
	funcs := map[string]int{}
	exhaustive := true
	mapFixed := false
	reach := map[string]int{}
	for _, r := range results {
		states += r.Paths
		transitions += r.Decisions
		evals += r.Checks
		nontriv += r.Paths - r.Trivial
		for _, s := range r.Samples {
			if len(samples) < 24 {
				samples = append(samples, s)
			}
		}
		if r.BoundHits > 0 || len(r.Inconclusive) > 0 || r.EngineErr != "" {
			exhaustive = false
		}
		if r.MapOrderFixed {
			mapFixed = true
		}
		for k, n := range r.Funcs {
			funcs[k] += n
		}
		for k, n := range r.Reach {
			reach[r.Name+":"+k] += n
		}
		harnesses = append(harnesses, map[string]any{
			"name": r.Name, "paths": r.Paths, "completed": r.Completed, "blocked": r.Blocked, "asserts": r.Asserts,
			"solver_checks": r.Checks, "decisions": r.Decisions, "max_decisions_on_a_path": r.MaxDecisions,
			"bound_hits": r.BoundHits, "inconclusive": r.Inconclusive, "violations": len(r.Violations), "wall_s": r.Wall,
			"ssa_instructions_executed": r.Steps, "path_ends": r.ends,
		})
	}
	var netFuncs []string
	other := 0
	for k := range funcs {
		if strings.Contains(k, "golang.org/x/net") && !strings.Contains(k, ".Verif") && !strings.Contains(k, ".vf") {
			netFuncs = append(netFuncs, k)
		} else {
			other++
		}
	}
	sort.Strings(netFuncs)
	if len(samples) == 0 {
		samples = append(samples, "no completed path")
	}
	if states < 1 {
		states = 1
	}
	if transitions < 1 {
		transitions = 1
	}
	cov := map[string]any{
		"states":                        states,
		"transitions":                   transitions,
		"traces_validated_against_impl": validated,
		"samples":                       samples,
		"evaluations":                   max(evals, 1),
		"distinct_nontrivial":           nontriv,
		"rule": "states = distinct feasible symbolic paths of the harness (each stands for every input satisfying its path condition); transitions = " +
			"solver-decided branch decisions over all paths; evaluations = assertion/implicit-panic queries sent to the SMT solver; " +
			"distinct_nontrivial = paths that evaluated at least one vfAssert; traces_validated_against_impl = sampled paths whose witness input " +
			"vector was run against the native build (go test -overlay) with identical observations and reach markers",
		"exhaustive":             exhaustive && len(vacuous) == 0,
		"harnesses":              harnesses,
		"functions_encoded_xnet": netFuncs,
		"functions_encoded_other": other,
		"bounds":                 cfg.Bounds,
		"reach_markers":          reach,
		"vacuous_markers":        vacuous,
		"native_mismatches":      mismatches,
		"known_findings_matched": known,
		"map_order_fixed":        mapFixed,
		"toolchain":              ld.toolchain,
		"packages_loaded":        ld.npkgs,
		"queries": map[string]any{
			"total": atomic.LoadInt64(&gStats.Queries), "sat": gStats.Sat, "unsat": gStats.Unsat, "unknown": gStats.Unknown,
			"errors": gStats.Errors, "fallback_runs": gStats.Fallback, "fallback_backends": gBackendUse.m,
			"decided_by_enumeration": atomic.LoadInt64(&gStats.Enumerated),
			"decided_by_enumeration_note": "branch-feasibility queries over at most 8 free input bits are decided by complete enumeration of the assignments with the term evaluator (exact) and are counted here, not in total/sat/unsat (those are SMT queries); assertion queries always go to the SMT solver; per harness, solver_checks counts the assertions that were symbolic and were discharged by SMT, asserts counts all assertion evaluations (the rest were constants on their path)",
			"primary": "z3-new 5.1.0 -in (one self-contained push/pop query per decision, sliced to the variables involved)", "fallback": "fresh z3 5.1.0 process, z3 4.8.12, cvc5 1.0 (QF_BV), cvc5 --solve-bv-as-int=sum first for mul/div queries",
		},
		"solver_s": float64(gStats.Nanos) / 1e9,
		"engine":   "symgo: symbolic execution of go/ssa (x/tools v0.50.0) rebuilt from /repo on this run",
	}
	ev := map[string]any{
		"property_id": id,
		"tier":        tier,
		"seed":        seed,
		"level":       "model_checking",
		"coverage":    cov,
		"assumptions": append([]string{
			"bounded: only inputs/histories within the bounds listed under coverage.bounds are covered",
			"engine intrinsics (bytealg, sync, atomics, abstract clock, opaque fmt) behave as the real functions; sampled paths are cross-checked natively",
			"SMT solvers (z3/cvc5) are sound",
		}, cfg.Assumptions...),
		"wall_s":     wall,
		"violations": violations,
		"generated":  time.Now().UTC().Format(time.RFC3339),
	}
	b, err := json.MarshalIndent(ev, "", " ")
	if err != nil {
		return err
	}
	dir := filepath.Join(gVerif, "evidence")
	if err := os.MkdirAll(dir, 0o755); err != nil {
		return err
	}
	return os.WriteFile(filepath.Join(dir, id+".json"), b, 0o644)
}
