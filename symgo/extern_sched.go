package main

// Intrinsics added for the write-scheduler checks (C12, C13).

func init() {
	// strings.Clone / internal/stringslite.Clone copy through unsafe.String(&b[0], n) on a fresh []byte;
	// strings are immutable values in the engine, so a clone is the string itself.
	// (reached from strconv.ParseInt's syntax-error path under parseRFC9218Priority)
	clone := func(fr *frame, args []value) value { return args[0] }
	externals["internal/stringslite.Clone"] = clone
	externals["strings.Clone"] = clone
}
