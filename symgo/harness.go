package main

// The vf* harness API as seen by the engine.

import (
	"fmt"
	"go/token"
	"go/types"
	"regexp"
	"strings"

	"golang.org/x/tools/go/ssa"
)

// Harness is the static description of one harness entry point.
type Harness struct {
	Name           string // function name, e.g. VerifC22_roundtrip
	Prop           string
	Pkg            string
	Tier           int
	MapOrderMax    int
	MaxThreads     int
	MaxSchedPoints int
	MaxDecisions   int
	ConcIndexMax   int
	PoolReuse      bool // "pool_reuse": sync.Pool.Get may return any object Put earlier on the path (forked), or New()
	SchedGlobals   bool // "sched_globals": unsynchronised accesses to package-level variables are scheduling points
	MaxPreemptions int // context-switch bound for the symbolic scheduler (-1 = unbounded)
	mapOrderFixed  bool
	KnownActive    map[string]bool // known-finding keys listed as `finding:`
}

func (h *Harness) noteMapOrderFixed() { h.mapOrderFixed = true }

type hres struct{ v value }

var labelRe = regexp.MustCompile(`[^A-Za-z0-9_]`)

func (w *World) newInput(label string, wd uint8) *Term {
	r := w.run
	name := fmt.Sprintf("in%d_w%d_%s", len(r.inputs), wd, labelRe.ReplaceAllString(label, "_"))
	r.inputs = append(r.inputs, InputRec{Name: name, Label: label, W: wd})
	if w.concrete != nil {
		// concrete mode: inputs come from the vector
		if len(r.inputs) > len(w.concrete) {
			panic(pathEnd{"vector-exhausted"})
		}
		return w.tt.Const(w.concrete[len(r.inputs)-1], wd)
	}
	return w.tt.Var(name, wd)
}

// newInternalInput is newInput for values that the native run does not take from the replay vector.
func (w *World) newInternalInput(label string, wd uint8) *Term {
	t := w.newInput(label, wd)
	w.run.inputs[len(w.run.inputs)-1].Internal = true
	return t
}

func argStr(v value) string {
	s, ok := v.(string)
	if !ok {
		panic(engineError{"vf*: label must be a constant string"})
	}
	return s
}

func argInt(v value) int {
	u, ok := v.(uint64)
	if !ok {
		panic(engineError{fmt.Sprintf("vf*: integer argument must be concrete, got %T", v)})
	}
	return int(int64(u))
}

// harnessCall intercepts calls to the vf* shim functions.
func (w *World) harnessCall(fr *frame, fn *ssa.Function, args []value) *hres {
	name := fn.Name()
	if !strings.HasPrefix(name, "vf") || fn.Pkg == nil {
		return nil
	}
	if fn.Origin() != nil {
		name = fn.Origin().Name()
	}
	tt := w.tt
	r := w.run
	in := func(wd uint8) *hres { return &hres{fromTerm(w.newInput(argStr(args[0]), wd))} }
	switch name {
	case "vfU8":
		return in(8)
	case "vfU16":
		return in(16)
	case "vfU32", "vfI32":
		return in(32)
	case "vfU64", "vfI64", "vfInt":
		return in(64)
	case "vfBool":
		t := w.newInput(argStr(args[0]), 8)
		w.assume(fromTerm(tt.Cmp(OpUle, t, tt.Const(1, 8))))
		return &hres{fromTerm(tt.Cmp(OpEq, t, tt.Const(1, 8)))}
	case "vfBytes", "vfString":
		n := argInt(args[1])
		b := make([]value, n)
		for i := range b {
			b[i] = fromTerm(w.newInput(fmt.Sprintf("%s[%d]", argStr(args[0]), i), 8))
		}
		if name == "vfString" {
			return &hres{mkString(b)}
		}
		return &hres{b}
	case "vfChoice":
		k := argInt(args[1])
		if k <= 0 {
			panic(engineError{"vfChoice: k must be positive"})
		}
		wd := uint8(8)
		if k > 255 {
			wd = 16
		}
		if k > 65535 {
			panic(engineError{"vfChoice: k too large"})
		}
		t := w.newInput(argStr(args[0]), wd)
		w.assume(fromTerm(tt.Cmp(OpUlt, t, tt.Const(uint64(k), wd))))
		return &hres{w.concretize(t, k+1)}
	case "vfLen":
		lo, hi := argInt(args[1]), argInt(args[2])
		wd := uint8(8)
		if hi-lo > 255 {
			wd = 16
		}
		if hi < lo || hi-lo > 65535 {
			panic(engineError{"vfLen: bad range"})
		}
		t := w.newInput(argStr(args[0]), wd)
		w.assume(fromTerm(tt.Cmp(OpUle, t, tt.Const(uint64(hi-lo), wd))))
		return &hres{uint64(lo) + w.concretize(t, hi-lo+2)}
	case "vfRange":
		lo, hi := int64(argInt(args[1])), int64(argInt(args[2]))
		t := w.newInput(argStr(args[0]), 64)
		w.assume(fromTerm(tt.BAnd(tt.Cmp(OpSle, tt.Const(uint64(lo), 64), t), tt.Cmp(OpSle, t, tt.Const(uint64(hi), 64)))))
		return &hres{fromTerm(t)}
	case "vfAssume":
		w.assume(args[0])
		return &hres{nil}
	case "vfAssert":
		w.check(args[0], argStr(args[1]), w.where(fr.caller, fr.callpos))
		return &hres{nil}
	case "vfAssertKF":
		w.checkKF(args[0], argStr(args[1]), argStr(args[2]), args[3], w.where(fr.caller, fr.callpos))
		return &hres{nil}
	case "vfKnown":
		return &hres{w.h.KnownActive[argStr(args[0])]}
	case "vfReach":
		r.reach[argStr(args[0])]++
		return &hres{nil}
	case "vfObserve", "vfObserveBool", "vfObserveBytes", "vfObserveStr":
		var T types.Type = types.Typ[types.Uint64]
		v := args[1]
		switch name {
		case "vfObserveBool":
			T = types.Typ[types.Bool]
		case "vfObserveBytes":
			T = types.NewSlice(types.Typ[types.Uint8])
			v = append([]value(nil), v.([]value)...)
		case "vfObserveStr":
			T = types.Typ[types.String]
		}
		r.obs = append(r.obs, Observation{Label: argStr(args[0]), Val: v, T: T})
		return &hres{nil}
	case "vfIteU64", "vfIteInt", "vfIteI64", "vfIteU32", "vfIteU8":
		T := fn.Signature.Results().At(0).Type()
		switch c := args[0].(type) {
		case bool:
			if c {
				return &hres{args[1]}
			}
			return &hres{args[2]}
		case *Term:
			return &hres{w.iteVal(T, c, args[1], args[2])}
		}
	case "vfIteBool":
		return &hres{w.orv(w.andv(args[0], args[1]), w.andv(w.notv(args[0]), args[2]))}
	case "vfAnd":
		return &hres{w.andv(args[0], args[1])}
	case "vfOr":
		return &hres{w.orv(args[0], args[1])}
	case "vfNot":
		return &hres{w.notv(args[0])}
	case "vfImplies":
		return &hres{w.orv(w.notv(args[0]), args[1])}
	case "vfConcretize":
		switch v := args[0].(type) {
		case uint64:
			return &hres{v}
		case *Term:
			return &hres{w.concretize(v, 4096)}
		}
	case "vfConcretizeBool":
		return &hres{w.truth(args[0])}
	case "vfTier":
		return &hres{uint64(w.h.Tier)}
	case "vfSymbolic":
		return &hres{true}
	case "vfExpectPanic":
		return &hres{w.expectPanic(fr, args[0])}
	case "vfBlocks":
		return &hres{w.blocksCall(fr, args[0])}
	case "vfGo":
		w.spawn(fr, fr.callpos, args[0], nil)
		return &hres{nil}
	case "vfYield":
		w.schedPoint("yield")
		return &hres{nil}
	case "vfNoDeadlock":
		r.deadlockIsViolation = true
		return &hres{nil}
	case "vfTime":
		return &hres{w.abstractInstant(fromTerm(w.newInput(argStr(args[0]), 64)))}
	case "vfLog", "vfRegister":
		return &hres{nil}
	}
	panic(engineError{"unknown harness function " + name})
}

func panicText(tp targetPanic) string {
	s := ""
	switch v := tp.v.(type) {
	case iface:
		switch x := v.v.(type) {
		case string:
			s = x
		case nil:
			s = "nil"
		default:
			if v.t != nil {
				s = v.t.String() + " " + toString(v.v)
			}
		}
	default:
		s = toString(tp.v)
	}
	if len(s) > 200 {
		s = s[:200]
	}
	return s
}

// expectPanic runs f and reports whether it panicked (target-level panic, recovered here).
func (w *World) expectPanic(fr *frame, f value) (panicked bool) {
	depth := w.depth
	defer func() {
		if p := recover(); p != nil {
			if tp, ok := p.(targetPanic); ok && !tp.goexit {
				panicked = true
				w.depth = depth
				w.run.lastPanic = panicText(tp)
				return
			}
			panic(p)
		}
	}()
	w.call(fr, token.NoPos, f, nil)
	return false
}

// blocksCall runs f on a fresh thread and reports whether it ends up blocked forever
// (no other thread can make progress) rather than returning.
func (w *World) blocksCall(fr *frame, f value) bool {
	t := w.spawnNoYield(fr, f)
	s := w.sched
	me := s.cur
	// run t until it finishes or blocks
	for !t.done {
		if t.blockedOn != nil && !t.blockedOn() {
			// is anyone else (except me) able to run? if not, t is blocked for good
			others := false
			for _, x := range s.enabled() {
				if x != me {
					others = true
				}
			}
			if !others {
				return true
			}
		}
		me.blockedOn = func() bool { return t.done || (t.blockedOn != nil && !t.blockedOn()) }
		me.what = "vfBlocks"
		en := s.enabled()
		var cand []*thread
		for _, x := range en {
			if x != me {
				cand = append(cand, x)
			}
		}
		if len(cand) == 0 {
			me.blockedOn = nil
			if t.done {
				return false
			}
			return true
		}
		k := 0
		if len(cand) > 1 {
			k = w.chooseN(len(cand), "sched")
		}
		w.switchTo(cand[k])
		me.blockedOn = nil
	}
	return false
}

func (w *World) spawnNoYield(fr *frame, f value) *thread {
	s := w.sched
	t := &thread{id: len(s.threads), resume: make(chan struct{}), exited: make(chan struct{})}
	t.name = fmt.Sprintf("g%d", t.id)
	s.threads = append(s.threads, t)
	go func() {
		defer close(t.exited)
		<-t.resume
		defer func() {
			p := recover()
			t.done = true
			if _, ok := p.(killThread); ok || s.killing {
				return
			}
			if p != nil {
				if tp, ok := p.(targetPanic); ok && !tp.goexit {
					p = violationAbortFor(w, tp)
				} else if ok {
					p = nil
				}
			}
			if p != nil {
				s.abort = p
				s.cur = s.threads[0]
				s.threads[0].blockedOn = nil
				s.threads[0].resume <- struct{}{}
				return
			}
			w.threadExit(t)
		}()
		if s.killing {
			panic(killThread{})
		}
		w.call(nil, token.NoPos, f, nil)
	}()
	return t
}

// checkKF is an assertion with a known-finding escape: when `key` is listed as an open finding,
// violations for which kcond holds are reported as KNOWN-FINDING and everything else still fails.
func (w *World) checkKF(cond value, label, key string, kcond value, where string) {
	if !w.h.KnownActive[key] {
		w.check(cond, label, where)
		return
	}
	// is the known finding still there? (¬cond ∧ kcond satisfiable)
	bad := w.andv(w.notv(cond), kcond)
	hit := false
	switch b := bad.(type) {
	case bool:
		hit = b
	case *Term:
		r := w.run
		if r.cursor >= len(r.trail) {
			if w.evalBool(b) {
				hit = true
			} else {
				res, _ := w.query(b, false)
				hit = res == ResSat
			}
		}
	}
	if hit {
		w.run.known = append(w.run.known, key)
	}
	w.check(w.orv(cond, kcond), label, where)
	// continue on the side where the plain condition holds
	w.assume(cond)
}
