package main

// Values determined by the path condition without the solver.
//
// Concretisations (slice bounds, lengths, symbolic indices) add "t == const" to the path condition but the SSA
// values keep referring to the term t, so later branches on t (bounds checks, comparisons with len) used to cost
// one solver query each although their outcome is fixed. detEval computes the value of a term from constants
// and from the sub-terms the path condition pins to a constant (three-valued; unknown if any needed input is free).

func (r *Run) pin(t *Term) {
	if r.pinned == nil {
		r.pinned = map[*Term]uint64{}
		r.detMemo = map[*Term]uint64{}
	}
	switch {
	case t.Op == OpEq && t.B.Op == OpConst && t.A.Op != OpConst:
		r.pinned[t.A] = t.B.K
	case t.Op == OpEq && t.A.Op == OpConst && t.B.Op != OpConst:
		r.pinned[t.B] = t.A.K
	case t.Op == OpBNot:
		r.pinned[t.A] = 0
	}
	r.pinned[t] = 1
}

// detEval returns (value, true) if t has the same value for every input satisfying the pins.
func (w *World) detEval(t *Term) (uint64, bool) {
	r := w.run
	if t.Op == OpConst {
		return t.K, true
	}
	if len(r.pinned) == 0 {
		return 0, false
	}
	return r.det(t, map[*Term]bool{})
}

func (r *Run) det(t *Term, unknown map[*Term]bool) (uint64, bool) {
	if t.Op == OpConst {
		return t.K, true
	}
	if v, ok := r.pinned[t]; ok {
		return v, true
	}
	if t.Op == OpVar || unknown[t] {
		return 0, false
	}
	if v, ok := r.detMemo[t]; ok {
		return v, true
	}
	var res uint64
	known := false
	switch t.Op {
	case OpAdd, OpSub, OpMul, OpUDiv, OpURem, OpSDiv, OpSRem, OpAnd, OpOr, OpXor, OpShl, OpLShr, OpAShr:
		x, okx := r.det(t.A, unknown)
		y, oky := r.det(t.B, unknown)
		switch {
		case okx && oky:
			res, known = evalBin(t.Op, t.W, x, y), true
		case (t.Op == OpAnd || t.Op == OpMul) && ((okx && x == 0) || (oky && y == 0)):
			res, known = 0, true
		}
	case OpNot:
		if x, ok := r.det(t.A, unknown); ok {
			res, known = ^x&mask(t.W), true
		}
	case OpNeg:
		if x, ok := r.det(t.A, unknown); ok {
			res, known = -x&mask(t.W), true
		}
	case OpConcat:
		x, okx := r.det(t.A, unknown)
		y, oky := r.det(t.B, unknown)
		if okx && oky {
			res, known = x<<t.B.W|y, true
		}
	case OpExtract:
		if x, ok := r.det(t.A, unknown); ok {
			hi, lo := uint8(t.K>>8), uint8(t.K)
			res, known = (x>>lo)&mask(hi-lo+1), true
		}
	case OpZExt:
		if x, ok := r.det(t.A, unknown); ok {
			res, known = x, true
		}
	case OpSExt:
		if x, ok := r.det(t.A, unknown); ok {
			res, known = uint64(sext64(x, t.A.W))&mask(t.W), true
		}
	case OpEq, OpUlt, OpUle, OpSlt, OpSle:
		x, okx := r.det(t.A, unknown)
		y, oky := r.det(t.B, unknown)
		if okx && oky {
			known = true
			if evalCmp(t.Op, t.A.W, x, y) {
				res = 1
			}
		}
	case OpBNot:
		if x, ok := r.det(t.A, unknown); ok {
			res, known = x^1, true
		}
	case OpBAnd:
		x, okx := r.det(t.A, unknown)
		y, oky := r.det(t.B, unknown)
		switch {
		case (okx && x == 0) || (oky && y == 0):
			res, known = 0, true
		case okx && oky:
			res, known = 1, true
		}
	case OpBOr:
		x, okx := r.det(t.A, unknown)
		y, oky := r.det(t.B, unknown)
		switch {
		case (okx && x != 0) || (oky && y != 0):
			res, known = 1, true
		case okx && oky:
			res, known = 0, true
		}
	case OpIte:
		if c, ok := r.det(t.A, unknown); ok {
			if c != 0 {
				res, known = r.det(t.B, unknown)
			} else {
				res, known = r.det(t.C, unknown)
			}
		}
	}
	if known {
		r.detMemo[t] = res
		return res, true
	}
	unknown[t] = true
	return 0, false
}
