package main

import (
	"fmt"
	"go/token"
	"go/types"
	"os"
	"runtime"
	"sort"
	"strings"
	"sync"
	"time"

	"golang.org/x/tools/go/ssa"
)

// PathSample is one explored path written to the evidence file.
type PathSample struct {
	Harness   string            `json:"harness"`
	Decisions int               `json:"decisions"`
	Inputs    map[string]uint64 `json:"inputs"`
	Asserts   int               `json:"asserts_on_path"`
	End       string            `json:"end"`
}

// Vector is one concrete input assignment with the outcome the engine predicts for it.
type Vector struct {
	Harness string   `json:"harness"`
	Values  []uint64 `json:"values"`
	Labels  []string `json:"labels"`
	Known   []string `json:"known"`
	Tier    int      `json:"tier"`
	// engine's prediction
	Status string      `json:"-"`
	Obs    [][2]string `json:"-"`
	Reach  []string    `json:"-"`
}

type HarnessResult struct {
	Name         string
	Paths        int
	Completed    int // paths that reached the end of the harness
	Trivial      int // ended by assume / before any assertion
	Blocked      int
	Asserts      int
	Checks       int
	Decisions    int
	MaxDecisions int
	BoundHits    int
	Inconclusive []string
	Violations   []*Violation
	Known        map[string]int
	Reach        map[string]int
	Samples      []PathSample
	Vectors      []*Vector
	EngineErr    string
	Steps        int64
	Funcs        map[string]int
	MapOrderFixed bool
	SchedPaths   int // completed paths that depend on scheduler/select/map-order choices (not natively replayable)
	Wall         float64
	ends         map[string]int
}

type Explorer struct {
	ld       *Loaded
	fn       *ssa.Function
	h        *Harness
	nworkers int
	maxPaths int
	deadline time.Time

	mu      sync.Mutex
	cond    *sync.Cond
	queue   []workItem
	active  int
	stop    bool
	res     *HarnessResult
	maxVec  int
}

func newWorld(ld *Loaded, id int) (*World, error) {
	w := &World{prog: ld.prog, globals: map[*ssa.Global]*value{}, pkgInit: map[*ssa.Package]bool{}, pkgInitDone: map[*ssa.Package]bool{},
		tt: NewTermTable(), id: id, funcs: map[*ssa.Function]int{}, varsMemo: map[*Term][]*Term{}, fpMemo: map[*Term]uint32{}}
	s, err := StartSolver(gQueryTimeoutMs)
	if err != nil {
		return nil, err
	}
	w.solver = s
	if t := w.lookupType("runtime", "errorString"); t != nil {
		w.runtimeErrorT = t
	} else {
		return nil, fmt.Errorf("runtime.errorString not found")
	}
	w.errorIface = types.Universe.Lookup("error").Type().Underlying().(*types.Interface)
	return w, nil
}

var gQueryTimeoutMs = 10000

func (ex *Explorer) run() *HarnessResult {
	t0 := time.Now()
	ex.cond = sync.NewCond(&ex.mu)
	ex.res = &HarnessResult{Name: ex.fn.Name(), Known: map[string]int{}, Reach: map[string]int{}, Funcs: map[string]int{}, ends: map[string]int{}}
	ex.queue = []workItem{{}}
	var wg sync.WaitGroup
	for i := 0; i < ex.nworkers; i++ {
		wg.Add(1)
		go func(i int) {
			defer wg.Done()
			ex.worker(i)
		}(i)
	}
	wg.Wait()
	ex.res.Wall = time.Since(t0).Seconds()
	return ex.res
}

func (ex *Explorer) fail(msg string) {
	ex.mu.Lock()
	if ex.res.EngineErr == "" {
		ex.res.EngineErr = msg
	}
	ex.stop = true
	ex.cond.Broadcast()
	ex.mu.Unlock()
}

func (ex *Explorer) worker(id int) {
	_ = runtime.NumCPU
	w, err := newWorld(ex.ld, id)
	if err != nil {
		ex.fail(err.Error())
		return
	}
	defer w.solver.Close()
	h := *ex.h
	w.h = &h
	// package initialisation for this worker's heap
	func() {
		defer func() {
			if p := recover(); p != nil {
				ex.fail(fmt.Sprintf("package init: %v", describePanic(p)))
			}
		}()
		w.run = newRun(workItem{}, &h)
		w.resetSched()
		w.ensureInit(ex.fn.Pkg)
	}()
	for {
		ex.mu.Lock()
		for len(ex.queue) == 0 && ex.active > 0 && !ex.stop {
			ex.cond.Wait()
		}
		if ex.stop || (len(ex.queue) == 0 && ex.active == 0) {
			ex.cond.Broadcast()
			ex.mu.Unlock()
			break
		}
		item := ex.queue[len(ex.queue)-1]
		ex.queue = ex.queue[:len(ex.queue)-1]
		ex.active++
		ex.mu.Unlock()

		out := w.runPath(ex.fn, item)

		ex.mu.Lock()
		ex.active--
		ex.merge(w, out)
		if ex.res.Paths >= ex.maxPaths || time.Now().After(ex.deadline) {
			if len(ex.queue) > 0 || ex.active > 0 {
				ex.res.Inconclusive = appendUniq(ex.res.Inconclusive, "exploration cap reached (time or path budget) with work left: reduce the bound")
			}
			ex.stop = true
		}
		ex.cond.Broadcast()
		ex.mu.Unlock()
	}
	ex.mu.Lock()
	for fn, n := range w.funcs {
		ex.res.Funcs[fn.String()] += n
	}
	if w.h.mapOrderFixed {
		ex.res.MapOrderFixed = true
	}
	ex.mu.Unlock()
}

func appendUniq(l []string, s string) []string {
	for _, x := range l {
		if x == s {
			return l
		}
	}
	if len(l) > 50 {
		return l
	}
	return append(l, s)
}

type pathOut struct {
	run       *Run
	end       string
	violation *Violation
	engineErr string
	steps     int64
}

func newRun(item workItem, h *Harness) *Run {
	r := &Run{trail: item.trail, pcSet: map[*Term]bool{}, witness: item.witness, evalMemo: map[*Term]uint64{},
		reach: map[string]int{}, maxDecisions: h.MaxDecisions, syncState: map[*value]any{}}
	if r.witness == nil {
		r.witness = Model{}
	}
	r.parentLog = item.dbgLog
	return r
}

func describePanic(p any) string {
	switch x := p.(type) {
	case engineError:
		return x.msg
	case targetPanic:
		return "target panic: " + panicText(x) + " at " + x.where
	case pathEnd:
		return "path end: " + x.reason
	}
	return fmt.Sprintf("%v\n%s", p, stack())
}

// runPath executes the harness once along item's trail and returns what happened.
func (w *World) runPath(fn *ssa.Function, item workItem) (out pathOut) {
	w.epochID++
	w.run = newRun(item, w.h)
	out.run = w.run
	w.logging = true
	w.depth = 0
	w.clockLast = nil
	steps0 := w.steps
	w.pathSteps0 = w.steps
	w.resetSched()
	if w.tt.Size() > 2_000_000 {
		w.tt = NewTermTable()
		w.varsMemo = map[*Term][]*Term{}
		w.fpMemo = map[*Term]uint32{}
		w.solver.Reset()
	}
	func() {
		defer func() {
			p := recover()
			switch x := p.(type) {
			case nil:
				out.end = "end"
			case pathEnd:
				out.end = x.reason
			case violationAbort:
				out.end = "violation"
				out.violation = x.v
			case targetPanic:
				if x.goexit {
					out.end = "goexit"
					return
				}
				out.end = "violation"
				out.violation = &Violation{Harness: w.h.Name, Kind: "panic", Label: panicText(x), Where: x.where, Model: w.run.witness,
					Inputs: append([]InputRec(nil), w.run.inputs...), Trail: append([]dec(nil), w.run.taken...)}
			case engineError:
				out.end = "engine-error"
				out.engineErr = x.msg
			default:
				out.end = "engine-error"
				out.engineErr = fmt.Sprintf("internal: %v\n%s", p, stack())
			}
		}()
		w.call(nil, token.NoPos, fn, nil)
	}()
	func() {
		defer func() { recover() }()
		w.killThreads()
	}()
	w.rollback()
	w.logging = false
	out.steps = w.steps - steps0
	return
}

func (ex *Explorer) merge(w *World, out pathOut) {
	res := ex.res
	r := out.run
	res.Paths++
	res.Steps += out.steps
	res.Asserts += r.asserts
	res.Checks += r.checks
	res.Decisions += len(r.taken)
	if len(r.taken) > res.MaxDecisions {
		res.MaxDecisions = len(r.taken)
	}
	key := out.end
	if i := strings.IndexByte(key, ':'); i > 0 {
		key = key[:i]
	}
	res.ends[key]++
	for _, k := range r.known {
		res.Known[k]++
	}
	for _, s := range r.inconclusive {
		if strings.HasPrefix(s, "BOUND-HIT") {
			res.BoundHits++
		}
		if strings.HasPrefix(s, "BOUND-HIT: path executed") {
			ex.stop = true // every further path through the same loop would burn the full step budget again
		}
		res.Inconclusive = appendUniq(res.Inconclusive, s)
	}
	if out.engineErr != "" {
		if res.EngineErr == "" {
			res.EngineErr = out.engineErr
		}
		ex.stop = true
		return
	}
	if out.violation != nil {
		out.violation.Sched = r.schedDependent
		dup := false
		for _, v := range res.Violations {
			if v.Label == out.violation.Label && v.Kind == out.violation.Kind {
				dup = true
			}
		}
		if !dup && len(res.Violations) < 8 {
			res.Violations = append(res.Violations, out.violation)
		}
	}
	switch {
	case out.end == "end":
		res.Completed++
		for k, n := range r.reach {
			res.Reach[k] += n
		}
	case strings.HasPrefix(out.end, "blocked"):
		res.Blocked++
		for k, n := range r.reach {
			res.Reach[k] += n
		}
	}
	if r.asserts == 0 && out.violation == nil {
		res.Trivial++
	}
	ex.queue = append(ex.queue, r.newWork...)
	// sample + vector for native cross-validation
	if out.end == "end" || out.violation != nil {
		if len(res.Samples) < 12 {
			in := map[string]uint64{}
			for _, ir := range r.inputs {
				in[ir.Name] = r.witness[ir.Name] & maskB(ir.W)
			}
			res.Samples = append(res.Samples, PathSample{Harness: res.Name, Decisions: len(r.taken), Inputs: in, Asserts: r.asserts, End: out.end})
		}
	}
	if out.end == "end" && r.schedDependent {
		res.SchedPaths++
	}
	if out.end == "end" && !r.schedDependent && len(res.Vectors) < ex.maxVec {
		res.Vectors = append(res.Vectors, w.makeVector(r, "ok"))
	}
}

// makeVector renders the witness of a finished path with the observations it predicts.
func (w *World) makeVector(r *Run, status string) *Vector {
	v := &Vector{Harness: w.h.Name, Status: status, Tier: w.h.Tier}
	for k := range w.h.KnownActive {
		v.Known = append(v.Known, k)
	}
	sort.Strings(v.Known)
	memo := map[*Term]uint64{}
	for _, ir := range r.inputs {
		if ir.Env || ir.Internal {
			continue
		}
		v.Values = append(v.Values, r.witness[ir.Name]&maskB(ir.W))
		v.Labels = append(v.Labels, ir.Label)
	}
	ev := func(x value) (uint64, bool) {
		switch x := x.(type) {
		case uint64:
			return x, true
		case bool:
			if x {
				return 1, true
			}
			return 0, true
		case *Term:
			return Eval(x, r.witness, memo), true
		}
		return 0, false
	}
	for _, o := range r.obs {
		var s string
		switch val := o.Val.(type) {
		case []value:
			var sb strings.Builder
			for _, b := range val {
				u, _ := ev(b)
				fmt.Fprintf(&sb, "%02x", u&0xff)
			}
			s = sb.String()
		case string, *symstr:
			var sb strings.Builder
			for _, b := range strBytes(val) {
				u, _ := ev(b)
				fmt.Fprintf(&sb, "%02x", u&0xff)
			}
			s = sb.String()
		default:
			u, ok := ev(val)
			if !ok {
				s = "?"
			} else if b, isB := o.T.(*types.Basic); isB && b.Kind() == types.Bool {
				s = fmt.Sprintf("%v", u != 0)
			} else {
				s = fmt.Sprintf("%d", u)
			}
		}
		v.Obs = append(v.Obs, [2]string{o.Label, s})
	}
	for k, n := range r.reach {
		for i := 0; i < n; i++ {
			v.Reach = append(v.Reach, k)
		}
	}
	sort.Strings(v.Reach)
	return v
}

func violationVector(h *Harness, v *Violation) *Vector {
	vec := &Vector{Harness: v.Harness, Tier: h.Tier}
	for k := range h.KnownActive {
		vec.Known = append(vec.Known, k)
	}
	sort.Strings(vec.Known)
	for _, ir := range v.Inputs {
		if ir.Env || ir.Internal {
			continue
		}
		vec.Values = append(vec.Values, v.Model[ir.Name]&maskB(ir.W))
		vec.Labels = append(vec.Labels, ir.Label)
	}
	return vec
}

func debugf(format string, args ...any) {
	if gDebug {
		fmt.Fprintf(os.Stderr, format+"\n", args...)
	}
}
