package main

import "strconv"

// Intrinsics added for C56 (internal/httpsfv).
func init() {
	// strconv.ParseFloat: exact on concrete strings. On a symbolic string the engine has no floating point theory:
	// the call is summarised as "succeeds with an unspecified value (0)". httpsfv.ParseDecimal only calls it on
	// strings it has already validated as -?DIGIT{1,12}.DIGIT{1,3}, which ParseFloat always accepts; the C56 harness
	// does not look at the value on symbolic inputs (stated in harness/checks/C56.json).
	externals["strconv.ParseFloat"] = func(fr *frame, args []value) value {
		if s, ok := args[0].(string); ok {
			f, err := strconv.ParseFloat(s, int(int64(args[1].(uint64))))
			if err == nil {
				z := zeroResult(fr.fn).(tuple)
				z[0] = f
				return z
			}
			unsupported("strconv.ParseFloat(%q) fails: error values of strconv are not modelled by this summary", s)
		}
		return zeroResult(fr.fn)
	}
	// string cloning (strconv error values, strings.Clone): strings are immutable values in the engine
	clone := func(fr *frame, args []value) value { return args[0] }
	externals["internal/stringslite.Clone"] = clone
	externals["strings.Clone"] = clone
	externals["strconv.cloneString"] = clone
}
