package main

// Abstract clock model for time.Time, lazy package initialisation, opaque errors.

import (
	"fmt"
	"os"
	"go/token"
	"go/types"

	"golang.org/x/tools/go/ssa"
)

// ensureInit runs pkg's initialiser once per world, outside the undo log.
func (w *World) ensureInit(pkg *ssa.Package) {
	if pkg == nil || w.pkgInitDone[pkg] {
		return
	}
	w.pkgInitDone[pkg] = true
	w.setupPackage(pkg)
	initFn := pkg.Func("init")
	if initFn == nil || gSkipInit[pkg.Pkg.Path()] {
		return
	}
	wasLog := w.logging
	w.logging = false
	depth := w.depth
	w.depth = 0
	savedFuncs := w.funcs
	w.funcs = nil
	defer func() { w.logging = wasLog; w.depth = depth; w.funcs = savedFuncs }()
	w.inInit++
	defer func() { w.inInit-- }()
	w.initDirect = true
	if os.Getenv("SYMGO_TRACE_INIT") != "" {
		fmt.Fprintln(os.Stderr, "INIT", pkg.Pkg.Path())
	}
	w.callSSA(nil, token.NoPos, initFn, nil, nil)
}

// gSkipInit: packages whose initialiser is not executed (check json "skip_init"): their package-level variables keep
// their zero values. For packages whose init only registers handlers/flags that the harnesses do not depend on.
var gSkipInit = map[string]bool{}

// isPackageInit reports whether fn is the synthetic initialiser of a package.
func isPackageInit(fn *ssa.Function) bool {
	return fn.Name() == "init" && fn.Synthetic != "" && fn.Pkg != nil && fn.Signature.Recv() == nil
}

// ---------------------------------------------------------------------
// abstract time: time.Time{wall:0, ext:u, loc:nil}, u = nanoseconds since the Unix epoch, 0 = zero Time

func (w *World) abstractInstant(u value) value {
	return structure{uint64(0), u, (*value)(nil)}
}

func (w *World) abstractNow() value {
	t := w.newInput("now", 64)
	w.run.inputs[len(w.run.inputs)-1].Env = true // natively time.Now is the real clock: it does not read the vector
	tt := w.tt
	if r := w.run; r.cursor >= len(r.trail) {
		// Give the fresh variable a witness value that satisfies the constraints below (it occurs in no other
		// constraint yet), so that the assumptions need no solver call. Code that reads the clock often
		// (webdav memFS stamps every write) otherwise pays one query per time.Now.
		if _, ok := r.witness[t.Name]; !ok {
			v := uint64(1 << 40)
			if w.clockLast != nil {
				if lv := Eval(w.clockLast, r.witness, r.evalMemo); int64(lv) > int64(v) {
					v = lv
				}
			}
			nm := make(Model, len(r.witness)+1)
			for k, x := range r.witness {
				nm[k] = x
			}
			nm[t.Name] = v
			r.witness = nm
		}
	}
	lo := tt.Const(1<<40, 64)
	if w.clockLast != nil {
		w.assume(fromTerm(tt.Cmp(OpSle, w.clockLast, t)))
	} else {
		w.assume(fromTerm(tt.Cmp(OpSle, lo, t)))
	}
	w.assume(fromTerm(tt.Cmp(OpSlt, t, tt.Const(1<<60, 64))))
	w.clockLast = t
	return w.abstractInstant(fromTerm(t))
}

func timeExt(fr *frame, v value) value {
	s := v.(structure)
	if wall, ok := s[0].(uint64); !ok || wall != 0 {
		unsupported("time.Time value outside the abstract clock model (wall != 0) at %s", fr.w.where(fr.caller, fr.callpos))
	}
	return s[1]
}

func i64(fr *frame, op token.Token, x, y value) value {
	t := types.Typ[types.Int64]
	return fr.w.binop(fr, token.NoPos, op, t, t, x, y)
}

func init() {
	for k, v := range map[string]externalFn{
		"(time.Time).Add": func(fr *frame, args []value) value {
			s := args[0].(structure)
			return structure{uint64(0), i64(fr, token.ADD, timeExt(fr, s), args[1]), s[2]}
		},
		"(time.Time).Sub": func(fr *frame, args []value) value {
			return i64(fr, token.SUB, timeExt(fr, args[0]), timeExt(fr, args[1]))
		},
		"(time.Time).After": func(fr *frame, args []value) value {
			return i64(fr, token.GTR, timeExt(fr, args[0]), timeExt(fr, args[1]))
		},
		"(time.Time).Before": func(fr *frame, args []value) value {
			return i64(fr, token.LSS, timeExt(fr, args[0]), timeExt(fr, args[1]))
		},
		"(time.Time).Equal": func(fr *frame, args []value) value {
			return i64(fr, token.EQL, timeExt(fr, args[0]), timeExt(fr, args[1]))
		},
		"(time.Time).Compare": func(fr *frame, args []value) value {
			w := fr.w
			a, b := timeExt(fr, args[0]), timeExt(fr, args[1])
			if w.truth(i64(fr, token.LSS, a, b)) {
				return ^uint64(0)
			}
			if w.truth(i64(fr, token.GTR, a, b)) {
				return uint64(1)
			}
			return uint64(0)
		},
		"(time.Time).IsZero": func(fr *frame, args []value) value {
			return i64(fr, token.EQL, timeExt(fr, args[0]), uint64(0))
		},
		"(time.Time).UnixNano": func(fr *frame, args []value) value { return timeExt(fr, args[0]) },
		"(time.Time).UnixMilli": func(fr *frame, args []value) value {
			return i64(fr, token.QUO, timeExt(fr, args[0]), uint64(1000000))
		},
		"(time.Time).UnixMicro": func(fr *frame, args []value) value {
			return i64(fr, token.QUO, timeExt(fr, args[0]), uint64(1000))
		},
		"(time.Time).Unix": func(fr *frame, args []value) value {
			return i64(fr, token.QUO, timeExt(fr, args[0]), uint64(1000000000))
		},
		"(time.Time).Round":    func(fr *frame, args []value) value { return args[0] },
		"(time.Time).UTC":      func(fr *frame, args []value) value { return args[0] },
		"(time.Time).Local":    func(fr *frame, args []value) value { return args[0] },
		"(*time.Time).stripMono": func(fr *frame, args []value) value { return nil },
		"time.Unix": func(fr *frame, args []value) value {
			sec := i64(fr, token.MUL, args[0], uint64(1000000000))
			return fr.w.abstractInstant(i64(fr, token.ADD, sec, args[1]))
		},
		"time.UnixMilli": func(fr *frame, args []value) value {
			return fr.w.abstractInstant(i64(fr, token.MUL, args[0], uint64(1000000)))
		},
		"time.Since": func(fr *frame, args []value) value {
			now := fr.w.abstractNow()
			return i64(fr, token.SUB, timeExt(fr, now), timeExt(fr, args[0]))
		},
		"time.Until": func(fr *frame, args []value) value {
			now := fr.w.abstractNow()
			return i64(fr, token.SUB, timeExt(fr, args[0]), timeExt(fr, now))
		},
	} {
		externals[k] = v
	}
}

// ---------------------------------------------------------------------
// opaque errors

// makeOpaqueError builds an error whose message is opaque; wrapped errors remain reachable for errors.Is/As.
func (w *World) makeOpaqueError(msg value, wrapped []value) value {
	switch len(wrapped) {
	case 0:
		t := w.lookupType("errors", "errorString")
		if t == nil {
			panic(engineError{"errors.errorString not loaded"})
		}
		var cell value = structure{msg}
		return iface{t: types.NewPointer(t), v: &cell}
	case 1:
		t := w.lookupType("fmt", "wrapError")
		if t == nil {
			panic(engineError{"fmt.wrapError not loaded"})
		}
		var cell value = structure{msg, wrapped[0]}
		return iface{t: types.NewPointer(t), v: &cell}
	}
	t := w.lookupType("fmt", "wrapErrors")
	if t == nil {
		panic(engineError{"fmt.wrapErrors not loaded"})
	}
	var cell value = structure{msg, append([]value(nil), wrapped...)}
	return iface{t: types.NewPointer(t), v: &cell}
}
