package main

import (
	"go/token"
	"go/types"
	"unsafe"
)

// Intrinsics added for the C27 endpoint harness (real AES-GCM of the Initial CONNECTION_CLOSE reply).

// cellsOverlap reports whether two program slices share cells. Program slices are engine slices of cells, so the
// overlap of the engine's backing arrays is the overlap of the program's.
func cellsOverlap(x, y []value) bool {
	if len(x) == 0 || len(y) == 0 {
		return false
	}
	x0, x1 := uintptr(unsafe.Pointer(&x[0])), uintptr(unsafe.Pointer(&x[len(x)-1]))
	y0, y1 := uintptr(unsafe.Pointer(&y[0])), uintptr(unsafe.Pointer(&y[len(y)-1]))
	return x0 <= y1 && y0 <= x1
}

func init() {
	// crypto/internal/fips140/alias (pointer-to-integer conversions in the original)
	externals["crypto/internal/fips140/alias.AnyOverlap"] = func(fr *frame, args []value) value {
		x, _ := args[0].([]value)
		y, _ := args[1].([]value)
		return cellsOverlap(x, y)
	}
	externals["crypto/internal/fips140/alias.InexactOverlap"] = func(fr *frame, args []value) value {
		x, _ := args[0].([]value)
		y, _ := args[1].([]value)
		if len(x) == 0 || len(y) == 0 || &x[0] == &y[0] {
			return false
		}
		return cellsOverlap(x, y)
	}
	// crypto/internal/fips140/subtle.xorBytes(dst, a, b *byte, n int): assembly in the original. The pointers point
	// into program byte slices (contiguous engine cells).
	externals["crypto/internal/fips140/subtle.xorBytes"] = func(fr *frame, args []value) value {
		n := int(args[3].(uint64))
		if n <= 0 {
			return nil
		}
		dst := unsafe.Slice(args[0].(*value), n)
		a := unsafe.Slice(args[1].(*value), n)
		b := unsafe.Slice(args[2].(*value), n)
		u8 := types.Typ[types.Uint8]
		tmp := make([]value, n)
		for i := 0; i < n; i++ {
			tmp[i] = fr.w.binop(fr, token.NoPos, token.XOR, u8, u8, a[i], b[i])
		}
		for i := 0; i < n; i++ {
			fr.w.setCell(&dst[i], tmp[i])
		}
		return nil
	}
}
