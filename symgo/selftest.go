package main

import (
	"fmt"
	"os"
	"os/exec"
	"strings"
)

// cmdSelftest runs the engine self-test harnesses (T00): every VerifT00_ok_* must hold and every
// VerifT00_bad_* must yield a violation that replays natively.
func cmdSelftest(args []string) int {
	self, _ := os.Executable()
	cmd := exec.Command(self, append([]string{"check", "T00", "--no-evidence"}, args...)...)
	cmd.Env = os.Environ()
	out, _ := cmd.CombinedOutput()
	text := string(out)
	fail := 0
	seen := map[string]bool{}
	for _, line := range strings.Split(text, "\n") {
		line = strings.TrimSpace(line)
		if strings.HasPrefix(line, "VerifT00_") {
			name := line[:strings.IndexByte(line, ':')]
			seen[name] = true
			viol := !strings.Contains(line, "violations=0 ")
			incon := !strings.Contains(line, "inconclusive=0 ")
			switch {
			case strings.HasPrefix(name, "VerifT00_ok_") && (viol || incon):
				fmt.Println("SELFTEST FAIL (should hold):", line)
				fail++
			case strings.HasPrefix(name, "VerifT00_bad_") && !viol:
				fmt.Println("SELFTEST FAIL (violation not found):", line)
				fail++
			}
		}
		if strings.HasPrefix(line, "ENGINE-ERROR") || strings.HasPrefix(line, "UNCONFIRMED") || strings.HasPrefix(line, "TRANSLATION-MISMATCH") || strings.HasPrefix(line, "VACUOUS") || strings.HasPrefix(line, "ERROR") {
			fmt.Println("SELFTEST FAIL:", line)
			fail++
		}
	}
	nbad := 0
	for n := range seen {
		if strings.HasPrefix(n, "VerifT00_bad_") {
			nbad++
		}
	}
	confirmed := strings.Count(text, "VIOLATION property=T00")
	if confirmed < nbad {
		fmt.Printf("SELFTEST FAIL: only %d of %d seeded violations were confirmed natively\n", confirmed, nbad)
		fail++
	}
	if len(seen) < 15 {
		fmt.Println("SELFTEST FAIL: self-test harnesses did not run\n" + tailStr(text, 1500))
		fail++
	}
	if fail > 0 {
		return 1
	}
	fmt.Printf("selftest OK: %d harnesses, %d seeded violations found and replayed natively\n", len(seen), confirmed)
	return 0
}

func tailStr(s string, n int) string {
	if len(s) > n {
		return s[len(s)-n:]
	}
	return s
}
