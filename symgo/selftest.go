package main

import "fmt"

func cmdSelftest(args []string) int {
	// term-level sanity: simplifier agrees with evaluator on random terms is covered by `go test`
	fmt.Println("selftest: see go test ./... in /verif/symgo and symgo check T0x")
	return 0
}
