package main

// Intrinsics: functions implemented by the engine instead of being interpreted
// (assembly-backed primitives, sync, atomics, runtime hooks, opaque formatting).

import (
	"fmt"
	"go/token"
	"go/types"
	"math"
	"math/bits"
	"strings"

	"golang.org/x/tools/go/ssa"
)

type externalFn func(fr *frame, args []value) value

var externals = map[string]externalFn{}

func init() {
	for k, v := range map[string]externalFn{
		"internal/bytealg.IndexByte":       extIndexByte,
		"internal/bytealg.IndexByteString": extIndexByte,
		"internal/bytealg.Count":           extCount,
		"internal/bytealg.CountString":     extCount,
		"internal/bytealg.Equal":           extBytesEqual,
		"internal/bytealg.Compare":         extCompare,
		"internal/bytealg.CompareString":   extCompare,
		"internal/bytealg.Index":           extIndex,
		"internal/bytealg.IndexString":     extIndex,
		"internal/bytealg.LastIndexByte":       extLastIndexByte,
		"internal/bytealg.LastIndexByteString": extLastIndexByte,
		"internal/bytealg.MakeNoZero": func(fr *frame, args []value) value {
			n := int(args[0].(uint64))
			r := make([]value, n)
			for i := range r {
				r[i] = uint64(0)
			}
			return r
		},
		"internal/stringslite.Index":     extIndex,
		"internal/stringslite.IndexByte": extIndexByte,
		"bytes.Equal":                    extBytesEqual,
		"bytes.IndexByte":                extIndexByte,
		"strings.IndexByte":              extIndexByte,
		"bytes.Compare":                  extCompare,
		"strings.Compare":                extCompare,
		"internal/bytealg.Cutover":       func(fr *frame, args []value) value { return uint64(4) },
		"internal/abi.FuncPCABI0":        extOpaqueZero,
		"internal/abi.NoEscape":          func(fr *frame, args []value) value { return args[0] },
		"internal/abi.Escape":            func(fr *frame, args []value) value { return args[0] },
		"strings.noescape":               func(fr *frame, args []value) value { return args[0] },
		"(*internal/godebug.Setting).Value":        func(fr *frame, args []value) value { return "" },
		"(*internal/godebug.Setting).IncNonDefault": func(fr *frame, args []value) value { return nil },
		"internal/godebug.New": func(fr *frame, args []value) value { return (*value)(nil) },
		"(*internal/godebug.Setting).Name": func(fr *frame, args []value) value { return "" },
		"internal/godebug.registerMetric":  func(fr *frame, args []value) value { return nil },
		"internal/godebug.setUpdate":       func(fr *frame, args []value) value { return nil },
		"internal/godebug.setNewIncNonDefault": func(fr *frame, args []value) value { return nil },
		"runtime.SetFinalizer":             func(fr *frame, args []value) value { return nil },
		"runtime.KeepAlive":                func(fr *frame, args []value) value { return nil },
		"runtime.Gosched":                  func(fr *frame, args []value) value { fr.w.schedPoint("gosched"); return nil },
		"runtime.GOMAXPROCS":               func(fr *frame, args []value) value { return uint64(4) },
		"runtime.NumCPU":                   func(fr *frame, args []value) value { return uint64(4) },
		"runtime.Callers":                  func(fr *frame, args []value) value { return uint64(0) },
		"runtime.Caller":                   func(fr *frame, args []value) value { return tuple{uint64(0), "", uint64(0), false} },
		"runtime.Stack":                    func(fr *frame, args []value) value { return uint64(0) },
		"runtime.Goexit": func(fr *frame, args []value) value {
			panic(targetPanic{goexit: true})
		},
		"runtime/debug.SetPanicOnFault": func(fr *frame, args []value) value { return false },
		"os.Getenv":                     func(fr *frame, args []value) value { return "" },
		"os.LookupEnv":                  func(fr *frame, args []value) value { return tuple{"", false} },
		"os.runtime_args":               func(fr *frame, args []value) value { return []value{"verif"} },
		"os.runtime_beforeExit":         func(fr *frame, args []value) value { return nil },
		"syscall.runtime_envs":          func(fr *frame, args []value) value { return []value(nil) },
		"syscall.Getenv":                func(fr *frame, args []value) value { return tuple{"", false} },
		"syscall.Getpagesize":           func(fr *frame, args []value) value { return uint64(4096) },
		"os.Getpagesize":                func(fr *frame, args []value) value { return uint64(4096) },
		"internal/cpu.Initialize":       func(fr *frame, args []value) value { return nil },
		"internal/cpu.doinit":           func(fr *frame, args []value) value { return nil },
		"golang.org/x/sys/cpu.init":     nil,
		"math.Float64bits":              func(fr *frame, args []value) value { return math.Float64bits(args[0].(float64)) },
		"math.Float64frombits":          func(fr *frame, args []value) value { return math.Float64frombits(args[0].(uint64)) },
		"math.Float32bits":              func(fr *frame, args []value) value { return uint64(math.Float32bits(args[0].(float32))) },
		"math.Float32frombits":          func(fr *frame, args []value) value { return math.Float32frombits(uint32(args[0].(uint64))) },
		"math.Floor":                    func(fr *frame, args []value) value { return math.Floor(args[0].(float64)) },
		"math.Ceil":                     func(fr *frame, args []value) value { return math.Ceil(args[0].(float64)) },
		"math.Trunc":                    func(fr *frame, args []value) value { return math.Trunc(args[0].(float64)) },
		"math.Sqrt":                     func(fr *frame, args []value) value { return math.Sqrt(args[0].(float64)) },
		"math.Abs":                      func(fr *frame, args []value) value { return math.Abs(args[0].(float64)) },
		"math.Log":                      func(fr *frame, args []value) value { return math.Log(args[0].(float64)) },
		"math.Exp":                      func(fr *frame, args []value) value { return math.Exp(args[0].(float64)) },
		"math.Pow":                      func(fr *frame, args []value) value { return math.Pow(args[0].(float64), args[1].(float64)) },
		"math.Mod":                      func(fr *frame, args []value) value { return math.Mod(args[0].(float64), args[1].(float64)) },
		"math.Inf":                      func(fr *frame, args []value) value { return math.Inf(int(int64(args[0].(uint64)))) },
		"math.NaN":                      func(fr *frame, args []value) value { return math.NaN() },
		"math.IsNaN":                    func(fr *frame, args []value) value { return math.IsNaN(args[0].(float64)) },
		"math.IsInf":                    func(fr *frame, args []value) value { return math.IsInf(args[0].(float64), int(int64(args[0+1].(uint64)))) },
		"math.Round":                    func(fr *frame, args []value) value { return math.Round(args[0].(float64)) },
		"math.RoundToEven":              func(fr *frame, args []value) value { return math.RoundToEven(args[0].(float64)) },
		"math.Log2":                     func(fr *frame, args []value) value { return math.Log2(args[0].(float64)) },
		"math.Modf": func(fr *frame, args []value) value {
			a, b := math.Modf(args[0].(float64))
			return tuple{a, b}
		},
		"math.Frexp": func(fr *frame, args []value) value {
			a, b := math.Frexp(args[0].(float64))
			return tuple{a, uint64(int64(b))}
		},
		"math.Ldexp": func(fr *frame, args []value) value {
			return math.Ldexp(args[0].(float64), int(int64(args[1].(uint64))))
		},
		"math/bits.LeadingZeros64": extBitsUnary(64, func(x uint64) uint64 { return uint64(bits.LeadingZeros64(x)) }),
		"math/bits.LeadingZeros32": extBitsUnary(32, func(x uint64) uint64 { return uint64(bits.LeadingZeros32(uint32(x))) }),
		"math/bits.TrailingZeros64": extBitsUnary(64, func(x uint64) uint64 { return uint64(bits.TrailingZeros64(x)) }),
		"math/bits.TrailingZeros32": extBitsUnary(32, func(x uint64) uint64 { return uint64(bits.TrailingZeros32(uint32(x))) }),

		// sync
		"(*sync.Mutex).Lock":      extMutexLock,
		"(*sync.Mutex).Unlock":    extMutexUnlock,
		"(*sync.Mutex).TryLock":   extMutexTryLock,
		"(*sync.RWMutex).Lock":    extMutexLock,
		"(*sync.RWMutex).Unlock":  extMutexUnlock,
		"(*sync.RWMutex).RLock":   extRLock,
		"(*sync.RWMutex).RUnlock": extRUnlock,
		"(*sync.RWMutex).TryLock": extMutexTryLock,
		"(*sync.Once).Do":         extOnceDo,
		"(*sync.Once).doSlow":     nil,
		"(*sync.Cond).Wait":       extCondWait,
		"(*sync.Cond).Signal":     extCondSignal,
		"(*sync.Cond).Broadcast":  extCondBroadcast,
		"(*sync.WaitGroup).Add":   extWGAdd,
		"(*sync.WaitGroup).Done":  func(fr *frame, args []value) value { return extWGAdd(fr, []value{args[0], ^uint64(0)}) },
		"(*sync.WaitGroup).Wait":  extWGWait,
		"(*sync.WaitGroup).Go": func(fr *frame, args []value) value {
			extWGAdd(fr, []value{args[0], uint64(1)})
			unsupported("sync.WaitGroup.Go")
			return nil
		},
		"(*sync.Pool).Get": extPoolGet,
		"(*sync.Pool).Put": func(fr *frame, args []value) value { return nil },
		"(*sync.Map).Load": nil,

		// atomics (functions; the typed wrappers' bodies call these)
		"sync/atomic.LoadInt32":   extAtomicLoad,
		"sync/atomic.LoadInt64":   extAtomicLoad,
		"sync/atomic.LoadUint32":  extAtomicLoad,
		"sync/atomic.LoadUint64":  extAtomicLoad,
		"sync/atomic.LoadUintptr": extAtomicLoad,
		"sync/atomic.LoadPointer": extAtomicLoad,
		"sync/atomic.StoreInt32":   extAtomicStore,
		"sync/atomic.StoreInt64":   extAtomicStore,
		"sync/atomic.StoreUint32":  extAtomicStore,
		"sync/atomic.StoreUint64":  extAtomicStore,
		"sync/atomic.StoreUintptr": extAtomicStore,
		"sync/atomic.StorePointer": extAtomicStore,
		"sync/atomic.AddInt32":   extAtomicAdd(32),
		"sync/atomic.AddInt64":   extAtomicAdd(64),
		"sync/atomic.AddUint32":  extAtomicAdd(32),
		"sync/atomic.AddUint64":  extAtomicAdd(64),
		"sync/atomic.AddUintptr": extAtomicAdd(64),
		"sync/atomic.SwapInt32":   extAtomicSwap,
		"sync/atomic.SwapInt64":   extAtomicSwap,
		"sync/atomic.SwapUint32":  extAtomicSwap,
		"sync/atomic.SwapUint64":  extAtomicSwap,
		"sync/atomic.SwapPointer": extAtomicSwap,
		"sync/atomic.CompareAndSwapInt32":   extAtomicCAS,
		"sync/atomic.CompareAndSwapInt64":   extAtomicCAS,
		"sync/atomic.CompareAndSwapUint32":  extAtomicCAS,
		"sync/atomic.CompareAndSwapUint64":  extAtomicCAS,
		"sync/atomic.CompareAndSwapUintptr": extAtomicCAS,
		"sync/atomic.CompareAndSwapPointer": extAtomicCAS,
		"sync/atomic.AndInt32":  nil,
		"(*sync/atomic.Value).Load": func(fr *frame, args []value) value {
			p := args[0].(*value)
			return (*p).(structure)[0]
		},
		"(*sync/atomic.Value).Store": func(fr *frame, args []value) value {
			fr.w.schedPoint("atomic")
			p := args[0].(*value)
			fr.w.setCell(&(*p).(structure)[0], args[1])
			return nil
		},
		"(*sync/atomic.Value).Swap": func(fr *frame, args []value) value {
			p := args[0].(*value)
			old := (*p).(structure)[0]
			fr.w.setCell(&(*p).(structure)[0], args[1])
			return old
		},
		"(*sync/atomic.Value).CompareAndSwap": func(fr *frame, args []value) value {
			p := args[0].(*value)
			cur := (*p).(structure)[0].(iface)
			old := args[1].(iface)
			if fr.w.truth(fr.w.eqv(fr, types.NewInterfaceType(nil, nil), cur, old)) {
				fr.w.setCell(&(*p).(structure)[0], args[2])
				return true
			}
			return false
		},

		// time
		"time.Now":       extTimeNow,
		"time.now":       nil,
		"time.runtimeNano": func(fr *frame, args []value) value { return uint64(1) },
		"time.Sleep":     func(fr *frame, args []value) value { fr.w.schedPoint("sleep"); return nil },
		"time.Since":     nil,

		// formatting: opaque when symbolic operands are involved
		"fmt.Sprintf": extSprintf,
		"fmt.Errorf":  extErrorf,
		"fmt.Sprint":  extSprint,
		"fmt.Sprintln": extSprint,
		"fmt.Fprintf": func(fr *frame, args []value) value { return tuple{uint64(0), iface{}} },
		"fmt.Fprintln": func(fr *frame, args []value) value { return tuple{uint64(0), iface{}} },
		"fmt.Fprint":  func(fr *frame, args []value) value { return tuple{uint64(0), iface{}} },
		"fmt.Printf":  func(fr *frame, args []value) value { return tuple{uint64(0), iface{}} },
		"fmt.Println": func(fr *frame, args []value) value { return tuple{uint64(0), iface{}} },
		"fmt.Print":   func(fr *frame, args []value) value { return tuple{uint64(0), iface{}} },
		"log.Printf":  func(fr *frame, args []value) value { return nil },
		"log.Println": func(fr *frame, args []value) value { return nil },
		"log.Print":   func(fr *frame, args []value) value { return nil },
		"(*log.Logger).Printf":  func(fr *frame, args []value) value { return nil },
		"(*log.Logger).Println": func(fr *frame, args []value) value { return nil },
		"(*log.Logger).Print":   func(fr *frame, args []value) value { return nil },
		"(*log.Logger).Output":  func(fr *frame, args []value) value { return iface{} },
		"log.Fatalf": func(fr *frame, args []value) value {
			panic(targetPanic{v: iface{fr.w.runtimeErrorT, "log.Fatalf called"}, where: fr.w.where(fr, token.NoPos)})
		},
		"log.Fatal": func(fr *frame, args []value) value {
			panic(targetPanic{v: iface{fr.w.runtimeErrorT, "log.Fatal called"}, where: fr.w.where(fr, token.NoPos)})
		},
		"log.Panicf": func(fr *frame, args []value) value {
			panic(targetPanic{v: iface{fr.w.runtimeErrorT, "log.Panicf called"}, where: fr.w.where(fr, token.NoPos)})
		},

		"unique.Make": nil,
		"crypto/rand.Read": extRandRead,
		"math/rand/v2.Uint64": func(fr *frame, args []value) value { return fromTerm(fr.w.newInput("rand", 64)) },
		"math/rand/v2.Uint32": func(fr *frame, args []value) value { return fromTerm(fr.w.newInput("rand", 32)) },
		"math/rand.Uint32":    func(fr *frame, args []value) value { return fromTerm(fr.w.newInput("rand", 32)) },
		"math/rand.Int63":     func(fr *frame, args []value) value {
			t := fr.w.newInput("rand", 64)
			return fromTerm(fr.w.tt.Bin(OpLShr, t, fr.w.tt.Const(1, 64)))
		},
		"math/rand.Intn":   extRandIntn,
		"math/rand/v2.IntN": extRandIntn,
		"math/rand/v2.N":    nil,

		"reflect.ValueOf": func(fr *frame, args []value) value {
			unsupported("reflect.ValueOf at %s", fr.w.where(fr.caller, token.NoPos))
			return nil
		},
	} {
		if v != nil {
			externals[k] = v
		}
	}
}

func extOpaqueZero(fr *frame, args []value) value { return uint64(0) }

func extBitsUnary(wd uint8, f func(uint64) uint64) externalFn {
	return func(fr *frame, args []value) value {
		switch x := args[0].(type) {
		case uint64:
			return f(x)
		case *Term:
			// fork over the result (≤ wd+1 values): ite chain on leading/trailing zero count is heavy; concretise x's class
			unsupported("math/bits on symbolic operand (width %d)", wd)
		}
		return nil
	}
}

// ---- bytealg ----

func seqBytes(v value) []value {
	switch s := v.(type) {
	case []value:
		return s
	case string, *symstr:
		return strBytes(s)
	}
	panic(engineError{fmt.Sprintf("seqBytes: %T", v)})
}

func extIndexByte(fr *frame, args []value) value {
	w := fr.w
	b := seqBytes(args[0])
	c := args[1]
	for i, x := range b {
		eq := w.eqv(fr, types.Typ[types.Uint8], x, c)
		if w.truth(eq) {
			return uint64(i)
		}
	}
	return ^uint64(0)
}

func extLastIndexByte(fr *frame, args []value) value {
	w := fr.w
	b := seqBytes(args[0])
	c := args[1]
	for i := len(b) - 1; i >= 0; i-- {
		if w.truth(w.eqv(fr, types.Typ[types.Uint8], b[i], c)) {
			return uint64(i)
		}
	}
	return ^uint64(0)
}

func extCount(fr *frame, args []value) value {
	w := fr.w
	b := seqBytes(args[0])
	c := args[1]
	n := uint64(0)
	for _, x := range b {
		if w.truth(w.eqv(fr, types.Typ[types.Uint8], x, c)) {
			n++
		}
	}
	return n
}

func extBytesEqual(fr *frame, args []value) value {
	w := fr.w
	a, b := seqBytes(args[0]), seqBytes(args[1])
	if len(a) != len(b) {
		return false
	}
	var res value = true
	for i := range a {
		res = w.andv(res, w.eqv(fr, types.Typ[types.Uint8], a[i], b[i]))
		if res == false {
			return false
		}
	}
	return res
}

func extCompare(fr *frame, args []value) value {
	w := fr.w
	a, b := seqBytes(args[0]), seqBytes(args[1])
	n := len(a)
	if len(b) < n {
		n = len(b)
	}
	for i := 0; i < n; i++ {
		if w.truth(w.eqv(fr, types.Typ[types.Uint8], a[i], b[i])) {
			continue
		}
		lt := w.binop(fr, token.NoPos, token.LSS, types.Typ[types.Uint8], types.Typ[types.Uint8], a[i], b[i])
		if w.truth(lt) {
			return ^uint64(0)
		}
		return uint64(1)
	}
	switch {
	case len(a) < len(b):
		return ^uint64(0)
	case len(a) > len(b):
		return uint64(1)
	}
	return uint64(0)
}

func extIndex(fr *frame, args []value) value {
	w := fr.w
	a, b := seqBytes(args[0]), seqBytes(args[1])
	for i := 0; i+len(b) <= len(a); i++ {
		var res value = true
		for j := range b {
			res = w.andv(res, w.eqv(fr, types.Typ[types.Uint8], a[i+j], b[j]))
			if res == false {
				break
			}
		}
		if w.truth(res) {
			return uint64(i)
		}
	}
	return ^uint64(0)
}

// ---- sync ----

type mutexState struct {
	locked  bool
	readers int
	owner   int
}

func (w *World) syncObj(p *value, mk func() any) any {
	r := w.run
	if o, ok := r.syncState[p]; ok {
		return o
	}
	o := mk()
	r.syncState[p] = o
	return o
}

func (w *World) mutex(p value) *mutexState {
	pv, ok := p.(*value)
	if !ok || pv == nil {
		panic(targetPanic{v: iface{w.runtimeErrorT, "runtime error: invalid memory address or nil pointer dereference (nil mutex)"}})
	}
	return w.syncObj(pv, func() any { return &mutexState{} }).(*mutexState)
}

func extMutexLock(fr *frame, args []value) value {
	w := fr.w
	m := w.mutex(args[0])
	w.schedPoint("lock")
	w.block(func() bool { return !m.locked && m.readers == 0 }, "Mutex.Lock")
	m.locked = true
	m.owner = w.sched.cur.id
	return nil
}

func extMutexTryLock(fr *frame, args []value) value {
	w := fr.w
	m := w.mutex(args[0])
	w.schedPoint("trylock")
	if m.locked || m.readers > 0 {
		return false
	}
	m.locked = true
	return true
}

func extMutexUnlock(fr *frame, args []value) value {
	w := fr.w
	m := w.mutex(args[0])
	if !m.locked {
		panic(targetPanic{v: iface{w.runtimeErrorT, "fatal error: sync: unlock of unlocked mutex"}, where: w.where(fr.caller, token.NoPos)})
	}
	w.schedPoint("unlock")
	m.locked = false
	return nil
}

func extRLock(fr *frame, args []value) value {
	w := fr.w
	m := w.mutex(args[0])
	w.schedPoint("rlock")
	w.block(func() bool { return !m.locked }, "RWMutex.RLock")
	m.readers++
	return nil
}

func extRUnlock(fr *frame, args []value) value {
	w := fr.w
	m := w.mutex(args[0])
	if m.readers <= 0 {
		panic(targetPanic{v: iface{w.runtimeErrorT, "fatal error: sync: RUnlock of unlocked RWMutex"}, where: w.where(fr.caller, token.NoPos)})
	}
	w.schedPoint("runlock")
	m.readers--
	return nil
}

type onceState struct{ done, running bool }

func extOnceDo(fr *frame, args []value) value {
	w := fr.w
	o := w.syncObj(args[0].(*value), func() any { return &onceState{} }).(*onceState)
	if o.done {
		return nil
	}
	if o.running {
		w.block(func() bool { return o.done }, "Once.Do")
		return nil
	}
	o.running = true
	defer func() { o.done = true; o.running = false }()
	w.call(fr, token.NoPos, args[1], nil)
	return nil
}

type condState struct {
	waiters []*condWaiter
}
type condWaiter struct{ woken bool }

func condLocker(p *value) iface {
	// sync.Cond{noCopy, L Locker, notify, checker}: find the Locker field (an iface)
	for _, f := range (*p).(structure) {
		if l, ok := f.(iface); ok {
			return l
		}
	}
	panic(engineError{"sync.Cond: no Locker field"})
}

func (w *World) callMethod(fr *frame, recv iface, name string) {
	if recv.t == nil {
		w.rtPanic(fr, token.NoPos, "nil Locker")
	}
	ms := w.prog.MethodSets.MethodSet(recv.t)
	for i := 0; i < ms.Len(); i++ {
		if ms.At(i).Obj().Name() == name {
			fn := w.prog.MethodValue(ms.At(i))
			w.call(fr, token.NoPos, fn, []value{recv.v})
			return
		}
	}
	panic(engineError{"callMethod: no method " + name + " on " + recv.t.String()})
}

func extCondWait(fr *frame, args []value) value {
	w := fr.w
	p := args[0].(*value)
	c := w.syncObj(p, func() any { return &condState{} }).(*condState)
	me := &condWaiter{}
	c.waiters = append(c.waiters, me)
	l := condLocker(p)
	w.callMethod(fr, l, "Unlock")
	w.block(func() bool { return me.woken }, "Cond.Wait")
	w.callMethod(fr, l, "Lock")
	return nil
}

func extCondSignal(fr *frame, args []value) value {
	w := fr.w
	c := w.syncObj(args[0].(*value), func() any { return &condState{} }).(*condState)
	if len(c.waiters) > 0 {
		c.waiters[0].woken = true
		c.waiters = c.waiters[1:]
	}
	return nil
}

func extCondBroadcast(fr *frame, args []value) value {
	w := fr.w
	c := w.syncObj(args[0].(*value), func() any { return &condState{} }).(*condState)
	for _, x := range c.waiters {
		x.woken = true
	}
	c.waiters = nil
	return nil
}

type wgState struct{ n int64 }

func extWGAdd(fr *frame, args []value) value {
	w := fr.w
	g := w.syncObj(args[0].(*value), func() any { return &wgState{} }).(*wgState)
	w.schedPoint("wg")
	g.n += int64(args[1].(uint64))
	if g.n < 0 {
		panic(targetPanic{v: iface{w.runtimeErrorT, "sync: negative WaitGroup counter"}, where: w.where(fr.caller, token.NoPos)})
	}
	return nil
}

func extWGWait(fr *frame, args []value) value {
	w := fr.w
	g := w.syncObj(args[0].(*value), func() any { return &wgState{} }).(*wgState)
	w.block(func() bool { return g.n == 0 }, "WaitGroup.Wait")
	return nil
}

func extPoolGet(fr *frame, args []value) value {
	w := fr.w
	p := args[0].(*value)
	st := (*p).(structure)
	// the New field is the only func-typed field
	for _, f := range st {
		switch fn := f.(type) {
		case *closure:
			return w.call(fr, token.NoPos, fn, nil)
		case *ssa.Function:
			if fn != nil {
				return w.call(fr, token.NoPos, fn, nil)
			}
		}
	}
	return iface{}
}

// ---- atomics ----

func extAtomicLoad(fr *frame, args []value) value {
	fr.w.schedPoint("atomic")
	p := args[0].(*value)
	if p == nil {
		fr.w.nilDeref(fr.caller, token.NoPos)
	}
	return *p
}

func extAtomicStore(fr *frame, args []value) value {
	p := args[0].(*value)
	if p == nil {
		fr.w.nilDeref(fr.caller, token.NoPos)
	}
	// scheduling points come BEFORE every visible operation (a point only after a store would leave no
	// switch between a thread's load and its own later store: missed by seeded change C58-A)
	fr.w.schedPoint("atomic")
	fr.w.setCell(p, args[1])
	return nil
}

func extAtomicAdd(wd uint8) externalFn {
	return func(fr *frame, args []value) value {
		w := fr.w
		w.schedPoint("atomic")
		p := args[0].(*value)
		var nv value
		oc, ok1 := (*p).(uint64)
		dc, ok2 := args[1].(uint64)
		if ok1 && ok2 {
			nv = (oc + dc) & mask(wd)
		} else {
			nv = fromTerm(w.tt.Bin(OpAdd, w.toTermW(*p, wd), w.toTermW(args[1], wd)))
		}
		w.setCell(p, nv)
		return nv
	}
}

func extAtomicSwap(fr *frame, args []value) value {
	fr.w.schedPoint("atomic")
	p := args[0].(*value)
	old := *p
	fr.w.setCell(p, args[1])
	return old
}

func extAtomicCAS(fr *frame, args []value) value {
	w := fr.w
	w.schedPoint("atomic")
	p := args[0].(*value)
	var eq value
	switch cur := (*p).(type) {
	case *value:
		eq = cur == args[1].(*value)
	default:
		eq = w.eqv(fr, types.Typ[types.Uint64], cur, args[1])
		if t, ok := eq.(*Term); ok {
			eq = w.branch(t)
		}
	}
	if eq.(bool) {
		w.setCell(p, args[2])
		return true
	}
	return false
}

// ---- time ----

// extTimeNow returns an abstract instant {wall:0, ext:u, loc:nil} with u a fresh symbolic int64
// constrained to be non-decreasing along the path and within ±2^60.
func extTimeNow(fr *frame, args []value) value {
	w := fr.w
	return w.abstractNow()
}

// ---- formatting ----

func anySymbolic(v value, depth int) bool {
	if depth > 3 {
		return false
	}
	switch v := v.(type) {
	case *Term, *symstr, *opaqueStr, *symptr:
		return true
	case iface:
		return anySymbolic(v.v, depth+1)
	case []value:
		for _, x := range v {
			if anySymbolic(x, depth+1) {
				return true
			}
		}
	case structure:
		for _, x := range v {
			if anySymbolic(x, depth+1) {
				return true
			}
		}
	case array:
		for _, x := range v {
			if anySymbolic(x, depth+1) {
				return true
			}
		}
	case *value:
		if v != nil && depth < 2 {
			return anySymbolic(*v, depth+1)
		}
	}
	return false
}

func extSprintf(fr *frame, args []value) value {
	return &opaqueStr{tag: "fmt.Sprintf@" + fr.w.where(fr.caller, fr.callpos)}
}

func extSprint(fr *frame, args []value) value {
	return &opaqueStr{tag: "fmt.Sprint@" + fr.w.where(fr.caller, fr.callpos)}
}

// extErrorf returns an error value carrying an opaque message; %w-wrapped errors stay reachable.
func extErrorf(fr *frame, args []value) value {
	w := fr.w
	var wrapped []value
	format, _ := args[0].(string)
	if strings.Contains(format, "%w") {
		for _, a := range args[1].([]value) {
			if ifv, ok := a.(iface); ok && ifv.t != nil {
				if types.Implements(ifv.t, w.errorIface) {
					wrapped = append(wrapped, ifv)
				}
			}
		}
	}
	return w.makeOpaqueError(&opaqueStr{tag: "fmt.Errorf(" + format + ")"}, wrapped)
}

func extRandRead(fr *frame, args []value) value {
	w := fr.w
	b := args[0].([]value)
	for i := range b {
		w.setCell(&b[i], fromTerm(w.newInput("rand", 8)))
	}
	return tuple{uint64(len(b)), iface{}}
}

func extRandIntn(fr *frame, args []value) value {
	w := fr.w
	n := args[0]
	t := w.newInput("rand", 64)
	nt := w.toTermW(n, 64)
	w.assume(fromTerm(w.tt.Cmp(OpUlt, t, nt)))
	return fromTerm(t)
}
