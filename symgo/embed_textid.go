package main

// //go:embed support for package-level `var x string` / `var x []byte` with a single file pattern (the linker, not
// the package initialiser, fills these in a real build): publicsuffix's text/nodes/children tables.

import (
	"go/ast"
	"go/parser"
	"go/token"
	"os"
	"path/filepath"
	"strings"
	"sync"

	"golang.org/x/tools/go/ssa"
)

var embedCache sync.Map // file name -> map[var name]pattern

func embedDirectives(file string) map[string]string {
	if m, ok := embedCache.Load(file); ok {
		return m.(map[string]string)
	}
	res := map[string]string{}
	fset := token.NewFileSet()
	f, err := parser.ParseFile(fset, file, nil, parser.ParseComments)
	if err == nil {
		for _, d := range f.Decls {
			gd, ok := d.(*ast.GenDecl)
			if !ok || gd.Tok != token.VAR {
				continue
			}
			for _, sp := range gd.Specs {
				vs := sp.(*ast.ValueSpec)
				doc := vs.Doc
				if doc == nil {
					doc = gd.Doc
				}
				if doc == nil || len(vs.Names) != 1 {
					continue
				}
				for _, c := range doc.List {
					if strings.HasPrefix(c.Text, "//go:embed ") {
						res[vs.Names[0].Name] = strings.TrimSpace(strings.TrimPrefix(c.Text, "//go:embed "))
					}
				}
			}
		}
	}
	embedCache.Store(file, res)
	return res
}

// loadEmbeds fills the go:embed variables of pkg (called when the package's globals are allocated).
func (w *World) loadEmbeds(pkg *ssa.Package) {
	imports := false
	for _, imp := range pkg.Pkg.Imports() {
		if imp.Path() == "embed" {
			imports = true
		}
	}
	if !imports {
		return
	}
	for _, m := range pkg.Members {
		g, ok := m.(*ssa.Global)
		if !ok || g.Pos() == token.NoPos {
			continue
		}
		file := w.prog.Fset.Position(g.Pos()).Filename
		if file == "" || strings.HasSuffix(file, "_test.go") {
			continue
		}
		pat, ok := embedDirectives(file)[g.Name()]
		if !ok {
			continue
		}
		if strings.ContainsAny(pat, "*?[ ") {
			panic(engineError{"go:embed pattern not supported: " + pat + " (" + g.String() + ")"})
		}
		data, err := os.ReadFile(filepath.Join(filepath.Dir(file), pat))
		if err != nil {
			panic(engineError{"go:embed: " + err.Error()})
		}
		cell := w.globals[g]
		switch {
		case isString(mustDeref(g.Type())):
			*cell = string(data)
		default:
			bs := make([]value, len(data))
			for i, b := range data {
				bs[i] = uint64(b)
			}
			*cell = bs
		}
	}
}
