package main

// errors.Is / errors.As / reflectlite stubs.

import (
	"go/token"
	"go/types"

	"golang.org/x/tools/go/ssa"
)

// rtypeStub is the value of a reflectlite.Type obtained in package initialisers; every method returns itself.
type rtypeStub struct{}

type hostFunc func(fr *frame, args []value) value

func (w *World) methodOf(t types.Type, name string) *ssa.Function {
	ms := w.prog.MethodSets.MethodSet(t)
	for i := 0; i < ms.Len(); i++ {
		if ms.At(i).Obj().Name() == name {
			return w.prog.MethodValue(ms.At(i))
		}
	}
	return nil
}

func (w *World) unwrapErr(fr *frame, err iface) []iface {
	if f := w.methodOf(err.t, "Unwrap"); f != nil {
		res := f.Signature.Results()
		if res.Len() != 1 {
			return nil
		}
		out := w.call(fr, token.NoPos, f, []value{err.v})
		switch o := out.(type) {
		case iface:
			if o.t == nil {
				return nil
			}
			return []iface{o}
		case []value:
			var l []iface
			for _, x := range o {
				if xi, ok := x.(iface); ok && xi.t != nil {
					l = append(l, xi)
				}
			}
			return l
		}
	}
	return nil
}

func (w *World) errorsIs(fr *frame, err, target iface) bool {
	if err.t == nil || target.t == nil {
		return err.t == nil && target.t == nil
	}
	comparable := types.Comparable(target.t)
	if comparable && types.Identical(err.t, target.t) {
		if w.truth(w.eqv(fr, err.t, err.v, target.v)) {
			return true
		}
	}
	if f := w.methodOf(err.t, "Is"); f != nil && f.Signature.Params().Len() == 1 && f.Signature.Results().Len() == 1 {
		if w.truth(w.call(fr, token.NoPos, f, []value{err.v, target})) {
			return true
		}
	}
	for _, u := range w.unwrapErr(fr, err) {
		if w.errorsIs(fr, u, target) {
			return true
		}
	}
	return false
}

func (w *World) errorsAs(fr *frame, err iface, target iface) bool {
	if err.t == nil {
		return false
	}
	pt, ok := target.t.Underlying().(*types.Pointer)
	if !ok {
		w.rtPanic(fr, token.NoPos, "errors: target must be a non-nil pointer")
	}
	tp := target.v.(*value)
	if tp == nil {
		w.rtPanic(fr, token.NoPos, "errors: target cannot be nil")
	}
	elem := pt.Elem()
	assign := func(e iface) bool {
		if it, isI := elem.Underlying().(*types.Interface); isI {
			if types.Implements(e.t, it) {
				w.setCell(tp, e)
				return true
			}
			return false
		}
		if types.Identical(e.t, elem) {
			w.store(elem, tp, e.v)
			return true
		}
		return false
	}
	if assign(err) {
		return true
	}
	if f := w.methodOf(err.t, "As"); f != nil && f.Signature.Params().Len() == 1 {
		if w.truth(w.call(fr, token.NoPos, f, []value{err.v, target})) {
			return true
		}
	}
	for _, u := range w.unwrapErr(fr, err) {
		if w.errorsAs(fr, u, target) {
			return true
		}
	}
	return false
}

func init() {
	for k, on := range zeroStubs {
		if on {
			externals[k] = func(fr *frame, args []value) value { return zeroResult(fr.fn) }
		}
	}
	externals["errors.Is"] = func(fr *frame, args []value) value {
		return fr.w.errorsIs(fr, args[0].(iface), args[1].(iface))
	}
	externals["errors.As"] = func(fr *frame, args []value) value {
		return fr.w.errorsAs(fr, args[0].(iface), args[1].(iface))
	}
	externals["internal/reflectlite.TypeOf"] = func(fr *frame, args []value) value {
		if fr.w.inInit > 0 {
			return iface{t: types.Typ[types.Invalid], v: rtypeStub{}}
		}
		unsupported("reflectlite.TypeOf at %s", fr.w.where(fr.caller, fr.callpos))
		return nil
	}
	externals["reflect.TypeOf"] = func(fr *frame, args []value) value {
		if fr.w.inInit > 0 {
			return iface{t: types.Typ[types.Invalid], v: rtypeStub{}}
		}
		unsupported("reflect.TypeOf at %s", fr.w.where(fr.caller, fr.callpos))
		return nil
	}
}

// skipTestInitCall reports whether a call made directly by a package initialiser belongs to one of the
// package's own _test.go files (other than the overlaid zz_verif_* harness files).
func (w *World) skipTestInitCall(fr *frame, instr *ssa.Call) bool {
	if !isPackageInit(fr.fn) {
		return false
	}
	pos := instr.Pos()
	if callee := instr.Call.StaticCallee(); callee != nil && callee.Pkg == fr.fn.Pkg && callee.Pos() != token.NoPos {
		pos = callee.Pos()
	}
	if pos == token.NoPos {
		return false
	}
	name := w.prog.Fset.Position(pos).Filename
	base := name
	for i := len(name) - 1; i >= 0; i-- {
		if name[i] == '/' {
			base = name[i+1:]
			break
		}
	}
	if len(base) > 9 && base[:9] == "zz_verif_" {
		return false
	}
	return len(base) > 8 && base[len(base)-8:] == "_test.go"
}

func zeroOrNil(t types.Type) value {
	if tup, ok := t.(*types.Tuple); ok && tup.Len() == 0 {
		return nil
	}
	return zero(t)
}

// zeroStubs are functions replaced by "return the zero value of every result".
var zeroStubs = map[string]bool{
	"os.NewFile": true, "os.newFile": true, "syscall.Getrlimit": true, "syscall.Setrlimit": true, "syscall.setrlimit": true,
	"syscall.prlimit": true, "syscall.prlimit1": true, "os.runtime_args": false,
	"internal/poll.runtime_pollServerInit": true, "os.checkPidfd": true, "internal/syscall/unix.PidFDOpen": true,
	"runtime.SetCgoTraceback": true, "internal/runtime/exithook.Add": true, "os.ignoreSIGSYS": true, "os.restoreSIGSYS": true,
	"syscall.Getpid": true, "os.Getpid": true, "os.Getuid": true, "os.Hostname": true, "os.Getwd": true,
}
