package main

// errors.Is / errors.As / reflectlite stubs.

import (
	"go/token"
	"go/types"

	"golang.org/x/tools/go/ssa"
)

// rtypeStub is the value of a reflectlite.Type obtained in package initialisers; every method returns itself.
type rtypeStub struct{}

type hostFunc func(fr *frame, args []value) value

func (w *World) methodOf(t types.Type, name string) *ssa.Function {
	ms := w.prog.MethodSets.MethodSet(t)
	for i := 0; i < ms.Len(); i++ {
		if ms.At(i).Obj().Name() == name {
			return w.prog.MethodValue(ms.At(i))
		}
	}
	return nil
}

func (w *World) unwrapErr(fr *frame, err iface) []iface {
	if f := w.methodOf(err.t, "Unwrap"); f != nil {
		res := f.Signature.Results()
		if res.Len() != 1 {
			return nil
		}
		out := w.call(fr, token.NoPos, f, []value{err.v})
		switch o := out.(type) {
		case iface:
			if o.t == nil {
				return nil
			}
			return []iface{o}
		case []value:
			var l []iface
			for _, x := range o {
				if xi, ok := x.(iface); ok && xi.t != nil {
					l = append(l, xi)
				}
			}
			return l
		}
	}
	return nil
}

func (w *World) errorsIs(fr *frame, err, target iface) bool {
	if err.t == nil || target.t == nil {
		return err.t == nil && target.t == nil
	}
	comparable := types.Comparable(target.t)
	if comparable && types.Identical(err.t, target.t) {
		if w.truth(w.eqv(fr, err.t, err.v, target.v)) {
			return true
		}
	}
	if f := w.methodOf(err.t, "Is"); f != nil && f.Signature.Params().Len() == 1 && f.Signature.Results().Len() == 1 {
		if w.truth(w.call(fr, token.NoPos, f, []value{err.v, target})) {
			return true
		}
	}
	for _, u := range w.unwrapErr(fr, err) {
		if w.errorsIs(fr, u, target) {
			return true
		}
	}
	return false
}

func (w *World) errorsAs(fr *frame, err iface, target iface) bool {
	if err.t == nil {
		return false
	}
	pt, ok := target.t.Underlying().(*types.Pointer)
	if !ok {
		w.rtPanic(fr, token.NoPos, "errors: target must be a non-nil pointer")
	}
	tp := target.v.(*value)
	if tp == nil {
		w.rtPanic(fr, token.NoPos, "errors: target cannot be nil")
	}
	elem := pt.Elem()
	assign := func(e iface) bool {
		if it, isI := elem.Underlying().(*types.Interface); isI {
			if types.Implements(e.t, it) {
				w.setCell(tp, e)
				return true
			}
			return false
		}
		if types.Identical(e.t, elem) {
			w.store(elem, tp, e.v)
			return true
		}
		return false
	}
	if assign(err) {
		return true
	}
	if f := w.methodOf(err.t, "As"); f != nil && f.Signature.Params().Len() == 1 {
		if w.truth(w.call(fr, token.NoPos, f, []value{err.v, target})) {
			return true
		}
	}
	for _, u := range w.unwrapErr(fr, err) {
		if w.errorsAs(fr, u, target) {
			return true
		}
	}
	return false
}

func init() {
	externals["errors.Is"] = func(fr *frame, args []value) value {
		return fr.w.errorsIs(fr, args[0].(iface), args[1].(iface))
	}
	externals["errors.As"] = func(fr *frame, args []value) value {
		return fr.w.errorsAs(fr, args[0].(iface), args[1].(iface))
	}
	externals["internal/reflectlite.TypeOf"] = func(fr *frame, args []value) value {
		if fr.w.inInit > 0 {
			return iface{t: types.Typ[types.Invalid], v: rtypeStub{}}
		}
		unsupported("reflectlite.TypeOf at %s", fr.w.where(fr.caller, fr.callpos))
		return nil
	}
	externals["reflect.TypeOf"] = func(fr *frame, args []value) value {
		if fr.w.inInit > 0 {
			return iface{t: types.Typ[types.Invalid], v: rtypeStub{}}
		}
		unsupported("reflect.TypeOf at %s", fr.w.where(fr.caller, fr.callpos))
		return nil
	}
}
