package main

import (
	"sync"
	"fmt"
	"go/token"
	"go/types"
	"runtime/debug"
	"sort"
	"sync/atomic"

	"golang.org/x/tools/go/ssa"
)

var (
	gDebug bool
	gTrace bool
)

func stack() []byte { return debug.Stack() }

// World is one worker's interpreter instance: its own globals/heap, term table and solver.
// maxPathSteps bounds the SSA instructions one path may execute (typical paths: 10^4..10^6).
const maxPathSteps = 20_000_000

type World struct {
	prog          *ssa.Program
	globals       map[*ssa.Global]*value
	pkgInit       map[*ssa.Package]bool
	tt            *TermTable
	solver        *Solver
	runtimeErrorT types.Type
	errorStringT  types.Type // errors.errorString analogue for engine-made errors

	logging bool
	undo    []undoRec
	mapUndo []func()

	run   *Run
	depth int
	steps int64
	pathSteps0 int64 // value of steps when the current path started (see maxPathSteps)
	funcs map[*ssa.Function]int // functions entered (evidence)

	sched *sched
	h     *Harness // harness being run
	id    int

	epochID     int64
	clockLast   *Term
	concrete    []uint64 // concrete mode: input values in call order
	inInit      int
	initDirect  bool
	pkgInitDone map[*ssa.Package]bool
	errorIface  *types.Interface
	varsMemo    map[*Term][]*Term
	feasQuery   bool
	fpMemo      map[*Term]uint32
	envPool     []map[ssa.Value]value
}

// InputRec describes one symbolic input created by a vf* call.
type InputRec struct {
	Name  string `json:"name"`
	Label string `json:"label"`
	W     uint8  `json:"w"`
	Env   bool   `json:"env,omitempty"` // created by the engine's environment model (time.Now), not by a vf* call: no native vector slot
	// Internal inputs are created by intrinsics (e.g. crypto/rand bytes), not by a vf* call: the native
	// replay never reads them from the vector, so they are left out of it.
	Internal bool `json:"internal,omitempty"`
}

type Observation struct {
	Label string
	Val   value // uint64, bool, *Term, string/*symstr
	T     types.Type
}

// Run is the state of one path exploration.
type Run struct {
	trail    []dec // decisions to replay
	cursor   int
	taken    []dec // decisions made so far (prefix == trail)
	pc       []*Term
	pcSet    map[*Term]bool
	flushed  int
	witness  Model
	evalMemo map[*Term]uint64
	inputs   []InputRec
	obs      []Observation
	reach    map[string]int
	asserts  int
	checks   int // solver-discharged checks
	expectPanic int
	inconclusive []string
	newWork  []workItem
	maxDecisions int
	known    []string // known-finding keys matched on this path
	blocked  string
	deadlockIsViolation bool
	syncState map[*value]any
	lastPanic string
	pinned   map[*Term]uint64 // sub-terms the path condition fixes to a constant (pinned.go)
	detMemo  map[*Term]uint64
	schedDependent bool // a scheduling/select choice with more than one option was made
	dbgLog, parentLog []string
}

// dec is one recorded decision: the side taken, and for concretisations the value tested.
type dec struct {
	b  bool
	v  uint64
	fp uint32 // structural fingerprint of the condition decided here (replay determinism self-check)
	// implied: the other side was infeasible, i.e. the path condition already implies the side taken. Such a
	// condition is remembered in pcSet (so that it is not decided again) but not appended to pc: it adds nothing
	// logically and would only couple otherwise independent variables in later constraint slices.
	implied bool
}

type workItem struct {
	trail   []dec
	witness Model
	dbgLog  []string // debug only: the parent's event log up to the fork
}

func (w *World) globalAddr(g *ssa.Global) *value {
	if g.Pkg != nil && !w.pkgInitDone[g.Pkg] {
		w.ensureInit(g.Pkg)
	}
	if r, ok := w.globals[g]; ok {
		return r
	}
	// global of a package not yet set up
	w.setupPackage(g.Pkg)
	if r, ok := w.globals[g]; ok {
		return r
	}
	panic(engineError{"no storage for global " + g.String()})
}

// buildPackage serialises the lazy SSA builds of different packages across workers: concurrent Package.Build calls
// that instantiate the same generic functions (cmp.isNaN[int] ...) were seen to corrupt each other
// ("SanityCheck failed ... function has 2 parameters in signature but has 1 after building").
var gBuildMu sync.Mutex

func buildPackage(pkg *ssa.Package) {
	gBuildMu.Lock()
	defer gBuildMu.Unlock()
	defer func() {
		if e := recover(); e != nil {
			panic(engineError{fmt.Sprintf("SSA build of package %s failed: %v", pkg.Pkg.Path(), e)})
		}
	}()
	pkg.Build()
}

// setupPackage allocates globals of pkg and runs its init (and, transitively through init's own
// calls to dependencies' init functions, theirs).
func (w *World) setupPackage(pkg *ssa.Package) {
	if w.pkgInit[pkg] {
		return
	}
	w.pkgInit[pkg] = true
	buildPackage(pkg)
	for _, m := range pkg.Members {
		if g, ok := m.(*ssa.Global); ok {
			cell := zero(mustDeref(g.Type()))
			w.globals[g] = &cell
		}
	}
	w.loadEmbeds(pkg)
}

// runInit executes the package initialiser of pkg (which calls its imports' init first).
func (w *World) runInit(pkg *ssa.Package) {
	was := w.logging
	w.logging = false
	defer func() { w.logging = was }()
	w.setupPackage(pkg)
	initFn := pkg.Func("init")
	w.call(nil, token.NoPos, initFn, nil)
}

// rollback undoes every logged heap write of the finished path.
func (w *World) rollback() {
	for i := len(w.undo) - 1; i >= 0; i-- {
		*w.undo[i].addr = w.undo[i].old
	}
	w.undo = w.undo[:0]
	for i := len(w.mapUndo) - 1; i >= 0; i-- {
		w.mapUndo[i]()
	}
	w.mapUndo = w.mapUndo[:0]
}

// ---------------------------------------------------------------------
// decisions

func (w *World) evalBool(t *Term) bool {
	r := w.run
	return Eval(t, r.witness, r.evalMemo) != 0
}

func (w *World) addPC(t *Term) {
	r := w.run
	if t == w.tt.True || r.pcSet[t] {
		return
	}
	r.pcSet[t] = true
	r.pc = append(r.pc, t)
	r.pin(t)
	// split conjunctions so later lookups hit
	if t.Op == OpBAnd {
		r.pcSet[t.A] = true
		r.pcSet[t.B] = true
	}
}

func (w *World) flushPC() {}

// termVars returns the (memoised) set of input variables occurring in t.
func (w *World) termVars(t *Term) []*Term {
	if t.Op == OpConst {
		return nil
	}
	if vs, ok := w.varsMemo[t]; ok {
		return vs
	}
	var vs []*Term
	if t.Op == OpVar {
		vs = []*Term{t}
	} else {
		seen := map[*Term]bool{}
		for _, c := range []*Term{t.A, t.B, t.C} {
			if c == nil {
				continue
			}
			for _, v := range w.termVars(c) {
				if !seen[v] {
					seen[v] = true
					vs = append(vs, v)
				}
			}
		}
	}
	if len(w.varsMemo) > 3_000_000 {
		w.varsMemo = map[*Term][]*Term{}
	}
	w.varsMemo[t] = vs
	return vs
}

// fingerprint is a structural hash of t that does not depend on term IDs (which differ between workers).
func (w *World) fingerprint(t *Term) uint32 {
	if fp, ok := w.fpMemo[t]; ok {
		return fp
	}
	h := uint32(2166136261)
	mix := func(x uint32) { h = (h ^ x) * 16777619 }
	mix(uint32(t.Op))
	mix(uint32(t.W))
	mix(uint32(t.K))
	mix(uint32(t.K >> 32))
	for i := 0; i < len(t.Name); i++ {
		mix(uint32(t.Name[i]))
	}
	for _, c := range []*Term{t.A, t.B, t.C} {
		if c != nil {
			mix(w.fingerprint(c))
		} else {
			mix(0x9e3779b9)
		}
	}
	if len(w.fpMemo) > 3_000_000 {
		w.fpMemo = map[*Term]uint32{}
	}
	w.fpMemo[t] = h
	return h
}

// query decides pc ∧ extra using only the part of the path condition that shares variables
// (transitively) with extra; the returned model is the current witness updated on those variables.
func (w *World) query(extra *Term, wantModel bool) (SatResult, Model) {
	r := w.run
	// variable closure
	inSet := map[*Term]bool{}
	for _, v := range w.termVars(extra) {
		inSet[v] = true
	}
	used := make([]bool, len(r.pc))
	terms := []*Term{}
	for changed := true; changed; {
		changed = false
		for i, p := range r.pc {
			if used[i] {
				continue
			}
			vs := w.termVars(p)
			hit := false
			for _, v := range vs {
				if inSet[v] {
					hit = true
					break
				}
			}
			if hit {
				used[i] = true
				terms = append(terms, p)
				for _, v := range vs {
					if !inSet[v] {
						inSet[v] = true
						changed = true
					}
				}
			}
		}
	}
	terms = append(terms, extra)
	vars := make([]string, 0, len(inSet))
	for v := range inSet {
		vars = append(vars, v.Name)
	}
	sort.Strings(vars)
	var res SatResult
	var m Model
	var ckey string
	if w.feasQuery && wantModel {
		ckey = qcKey(terms)
	}
	hit := false
	if ckey != "" {
		res, m, hit = w.qcGet(ckey)
	}
	if hit {
		// identical sliced query answered before on this worker
	} else if bits := sliceBits(inSet); w.feasQuery && bits <= 8 {
		// branch-feasibility query over at most 8 free bits: decided by complete enumeration of the
		// assignments with the term evaluator (exact; assertion queries always go to the SMT solver)
		res, m = enumerate(terms, inSet)
		atomic.AddInt64(&gStats.Enumerated, 1)
	} else {
		res, m = w.solver.CheckSet(terms, vars, wantModel)
		if ckey != "" {
			w.qcPut(ckey, res, m)
		}
	}
	if res == ResSat && wantModel {
		merged := make(Model, len(r.witness)+len(m))
		for k, v := range r.witness {
			merged[k] = v
		}
		for k, v := range m {
			merged[k] = v
		}
		return res, merged
	}
	return res, nil
}

func (w *World) setWitness(m Model) {
	r := w.run
	r.witness = m
	r.evalMemo = make(map[*Term]uint64)
}

// truth turns a bool-or-Term into a concrete bool, forking if needed.
func (w *World) truth(v value) bool {
	switch v := v.(type) {
	case bool:
		return v
	case *Term:
		return w.branch(v)
	}
	panic(engineError{fmt.Sprintf("truth: %T", v)})
}

// branch decides a symbolic condition: follows the replay trail, or takes the side the
// current witness satisfies and schedules the other side (if feasible) as new work.
func (w *World) branch(c *Term) bool { return w.branchV(c, 0) }

func (w *World) branchV(c *Term, val uint64) bool {
	if c.IsConst() {
		return c.K != 0
	}
	r := w.run
	nc := w.tt.BNot(c)
	if r.pcSet[c] {
		return true
	}
	if r.pcSet[nc] {
		return false
	}
	if v, ok := w.detEval(c); ok {
		return v != 0 // fixed by earlier concretisations: no decision, no query
	}
	if r.cursor < len(r.trail) {
		d := r.trail[r.cursor]
		if fp := w.fingerprint(c); d.fp != fp {
			msg := fmt.Sprintf("replay divergence at decision %d: recorded fingerprint %08x, now %08x for %s (engine non-determinism)", r.cursor, d.fp, fp, TermString(c, 4))
			if gDebug {
				msg += "\nPARENT LOG:\n"
				for _, l := range r.parentLog {
					msg += "  " + l + "\n"
				}
				msg += "THIS RUN:\n"
				for _, l := range r.dbgLog {
					msg += "  " + l + "\n"
				}
			}
			panic(engineError{msg})
		}
		r.cursor++
		r.taken = append(r.taken, d)
		dc := c
		if !d.b {
			dc = nc
		}
		if d.implied {
			w.notePC(dc)
		} else {
			w.addPC(dc)
		}
		return d.b
	}
	if len(r.taken) >= r.maxDecisions {
		r.inconclusive = append(r.inconclusive, fmt.Sprintf("decision limit %d reached", r.maxDecisions))
		panic(pathEnd{"decision-limit"})
	}
	side := w.evalBool(c)
	other := nc
	if !side {
		other = c
	}
	w.feasQuery = true
	res, model := w.query(other, true)
	w.feasQuery = false
	implied := false
	switch res {
	case ResUnsat:
		implied = true
	case ResSat:
		noteFork(c)
		tr := make([]dec, len(r.taken)+1)
		copy(tr, r.taken)
		tr[len(r.taken)] = dec{b: !side, v: val, fp: w.fingerprint(c)}
		wi := workItem{trail: tr, witness: model}
		if gDebug {
			wi.dbgLog = append([]string(nil), r.dbgLog...)
		}
		r.newWork = append(r.newWork, wi)
	case ResUnknown:
		r.inconclusive = append(r.inconclusive, "branch feasibility unknown: "+TermString(other, 4))
	}
	r.taken = append(r.taken, dec{b: side, v: val, fp: w.fingerprint(c), implied: implied})
	r.cursor++
	sc := c
	if !side {
		sc = nc
	}
	if implied {
		w.notePC(sc)
	} else {
		w.addPC(sc)
	}
	return side
}

// notePC records that the path condition implies t without adding t to the conjunction.
func (w *World) notePC(t *Term) {
	r := w.run
	r.pcSet[t] = true
	r.pin(t)
	if t.Op == OpBAnd {
		r.pcSet[t.A] = true
		r.pcSet[t.B] = true
	}
}

// concretize forks over the feasible values of t (at most limit, else BOUND-HIT).
func (w *World) concretize(t *Term, limit int) uint64 {
	if t.IsConst() {
		return t.K
	}
	for n := 0; ; n++ {
		if n > limit {
			w.run.inconclusive = append(w.run.inconclusive, fmt.Sprintf("BOUND-HIT: more than %d values for %s", limit, TermString(t, 3)))
			panic(pathEnd{"bound-hit"})
		}
		r := w.run
		if dv, ok := w.detEval(t); ok {
			return dv
		}
		// the witness satisfies the path condition, so if t is already pinned it evaluates to the pinned value
		v := Eval(t, r.witness, r.evalMemo)
		c := w.tt.Cmp(OpEq, t, w.tt.Const(v, t.W))
		if r.pcSet[c] {
			return v
		}
		if r.cursor < len(r.trail) {
			v = r.trail[r.cursor].v // replay must test the same value the recorded path tested
			c = w.tt.Cmp(OpEq, t, w.tt.Const(v, t.W))
		}
		if r.pcSet[w.tt.BNot(c)] {
			// the witness must satisfy the path condition; a pinned-out value here means it does not
			panic(engineError{"concretize: witness inconsistent with path condition"})
		}
		if w.branchV(c, v) {
			return v
		}
	}
}

// assume restricts the path to cond; an infeasible assumption ends the path silently.
func (w *World) assume(cond value) {
	switch c := cond.(type) {
	case bool:
		if !c {
			panic(pathEnd{"assume-false"})
		}
	case *Term:
		r := w.run
		if r.pcSet[c] {
			return
		}
		if r.cursor < len(r.trail) {
			// replaying: the assumption held on the recorded path (witness of the work item satisfies it)
			w.addPC(c)
			return
		}
		if !w.evalBool(c) {
			res, model := w.query(c, true)
			switch res {
			case ResSat:
				w.setWitness(model)
			case ResUnsat:
				panic(pathEnd{"assume-infeasible"})
			default:
				r.inconclusive = append(r.inconclusive, "assume feasibility unknown")
				panic(pathEnd{"assume-unknown"})
			}
		}
		w.addPC(c)
	default:
		panic(engineError{fmt.Sprintf("assume: %T", cond)})
	}
}

// Violation is a failed check with the concrete input vector that triggers it.
type Violation struct {
	Harness string
	Kind    string // "assert" | "panic" | "deadlock"
	Label   string
	Where   string
	Model   Model
	Inputs  []InputRec
	Trail   []dec
	Sched   bool // depends on scheduler/select/map-order choices: replayed by engine re-execution, not natively
}

type violationAbort struct{ v *Violation }

// check decides an assertion: returns normally if it holds on every input of this path.
func (w *World) check(cond value, label string, where string) {
	r := w.run
	r.asserts++
	switch c := cond.(type) {
	case bool:
		if !c {
			w.violate("assert", label, where, r.witness)
		}
	case *Term:
		if r.pcSet[c] {
			return
		}
		if v, ok := w.detEval(c); ok && v != 0 {
			return
		}
		if r.cursor < len(r.trail) {
			// replaying a prefix: this check was discharged on the parent path
			w.addPC(c)
			return
		}
		if !w.evalBool(c) {
			w.violate("assert", label, where, r.witness)
		}
		res, model := w.query(w.tt.BNot(c), true)
		r.checks++
		switch res {
		case ResSat:
			w.violate("assert", label, where, model)
		case ResUnknown:
			r.inconclusive = append(r.inconclusive, "assertion undecided: "+label)
		}
		w.addPC(c)
	default:
		panic(engineError{fmt.Sprintf("check: %T", cond)})
	}
}

func (w *World) violate(kind, label, where string, m Model) {
	r := w.run
	v := &Violation{Harness: w.h.Name, Kind: kind, Label: label, Where: where, Model: m,
		Inputs: append([]InputRec(nil), r.inputs...), Trail: append([]dec(nil), r.taken...)}
	panic(violationAbort{v})
}

func (w *World) hugeAlloc(fr *frame, pos token.Pos, n *Term) {
	// An allocation whose size is an unconstrained input: report as a violation of memory safety
	// (the native replay uses the panic region, see DESIGN §7).
	w.violate("alloc", "allocation size controlled by input", w.where(fr, pos), w.run.witness)
}

// sortedFuncs lists the functions entered, x/net first.
func (w *World) sortedFuncs() (net []string, other int) {
	for fn := range w.funcs {
		name := fn.String()
		if fn.Pkg != nil && len(fn.Pkg.Pkg.Path()) >= 16 && fn.Pkg.Pkg.Path()[:16] == "golang.org/x/net" {
			net = append(net, name)
		} else if len(name) > 18 && (name[:17] == "golang.org/x/net/" || name[:19] == "(*golang.org/x/net/" || name[:18] == "(golang.org/x/net/") {
			net = append(net, name)
		} else {
			other++
		}
	}
	sort.Strings(net)
	return
}
