package main

// Intrinsics added for the http2 client-side kernel harnesses (C09, C17, C18, client halves of C10/C11).

func init() {
	// net/netip's package initialiser interns two values with unique.Make (runtime-internal hash tries, abi.TypeOf
	// on an unsafe-cast interface word). Reached through the lazy initialisation of net/http/httptrace's
	// dependencies. Inside package initialisers the handle is the zero Handle; outside them it is unsupported,
	// so no harness can observe the stub.
	externals["unique.Make"] = func(fr *frame, args []value) value {
		if fr.w.inInit > 0 {
			return zeroResult(fr.fn)
		}
		unsupported("unique.Make at %s", fr.w.where(fr.caller, fr.callpos))
		return nil
	}
	// reflect's package initialiser computes a few *abi.Type values (rtypeOf(uint8(0)) ...) through an unsafe cast of
	// the interface word; reflect itself stays unsupported outside initialisers (reflect.TypeOf etc. in errs.go).
	externals["reflect.rtypeOf"] = func(fr *frame, args []value) value {
		if fr.w.inInit > 0 {
			return zeroResult(fr.fn)
		}
		unsupported("reflect.rtypeOf at %s", fr.w.where(fr.caller, fr.callpos))
		return nil
	}
}
