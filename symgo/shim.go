package main

// shimSource is the native implementation of the vf* harness API. It is overlaid
// into the package under test as zz_verif_rt_test.go (never written into /repo).
// Natively every input comes from a vector file; the engine intercepts the same
// functions and makes the inputs symbolic.
const shimSource = `package PKG

import (
	"bufio"
	"encoding/json"
	"fmt"
	"os"
	"strings"
	"testing"
	"time"
)

type vfVector struct {
	Harness string   ` + "`json:\"harness\"`" + `
	Values  []uint64 ` + "`json:\"values\"`" + `
	Labels  []string ` + "`json:\"labels\"`" + `
	Known   []string ` + "`json:\"known\"`" + `
	Tier    int      ` + "`json:\"tier\"`" + `
}

type vfResult struct {
	Status string     ` + "`json:\"status\"`" + `
	Obs    [][2]string ` + "`json:\"obs\"`" + `
	Reach  []string   ` + "`json:\"reach\"`" + `
	Known  []string   ` + "`json:\"known\"`" + `
}

type vfAbort struct{ why string }

var (
	vfCur      *vfVector
	vfPos      int
	vfRes      *vfResult
	vfRegistry = map[string]func(){}
)

func vfRegister(name string, f func()) { vfRegistry[name] = f }

func vfNext(label string) uint64 {
	if vfCur == nil {
		panic(vfAbort{"no vector"})
	}
	// engine-internal choices (map iteration order) have no native counterpart: skip them
	for vfPos < len(vfCur.Values) && vfPos < len(vfCur.Labels) && vfCur.Labels[vfPos] == "maporder" {
		vfPos++
	}
	if vfPos >= len(vfCur.Values) {
		// inputs beyond the vector are unconstrained in the model: zero
		vfPos++
		return 0
	}
	v := vfCur.Values[vfPos]
	vfPos++
	return v
}

func vfU8(label string) uint8   { return uint8(vfNext(label)) }
func vfU16(label string) uint16 { return uint16(vfNext(label)) }
func vfU32(label string) uint32 { return uint32(vfNext(label)) }
func vfU64(label string) uint64 { return vfNext(label) }
func vfI64(label string) int64  { return int64(vfNext(label)) }
func vfI32(label string) int32  { return int32(vfNext(label)) }
func vfInt(label string) int    { return int(vfNext(label)) }
func vfBool(label string) bool  { return vfNext(label) == 1 }
func vfBytes(label string, n int) []byte {
	b := make([]byte, n)
	for i := range b {
		b[i] = byte(vfNext(label))
	}
	return b
}
func vfString(label string, n int) string { return string(vfBytes(label, n)) }
func vfChoice(label string, k int) int {
	v := int(vfNext(label))
	if v >= k {
		panic(vfAbort{"choice out of range"})
	}
	return v
}
func vfLen(label string, lo, hi int) int {
	v := int(vfNext(label))
	if v > hi-lo {
		panic(vfAbort{"len out of range"})
	}
	return lo + v
}
func vfRange(label string, lo, hi int) int {
	v := int(int64(vfNext(label)))
	if v < lo || v > hi {
		panic(vfAbort{"range"})
	}
	return v
}
func vfTime(label string) time.Time {
	v := int64(vfNext(label))
	if v == 0 {
		return time.Time{}
	}
	return time.Unix(0, v)
}
func vfAssume(c bool) {
	if !c {
		panic(vfAbort{"assume"})
	}
}

type vfAssertFail struct{ label string }

func vfAssert(c bool, label string) {
	if !c {
		panic(vfAssertFail{label})
	}
}
func vfKnown(key string) bool {
	if vfCur != nil {
		for _, k := range vfCur.Known {
			if k == key {
				return true
			}
		}
	}
	return false
}
func vfAssertKF(c bool, label, key string, kcond bool) {
	if c {
		return
	}
	if vfKnown(key) && kcond {
		vfRes.Known = append(vfRes.Known, key)
		panic(vfAbort{"known-finding " + key})
	}
	panic(vfAssertFail{label})
}
func vfReach(label string) { vfRes.Reach = append(vfRes.Reach, label) }
func vfObserve(label string, v uint64) {
	vfRes.Obs = append(vfRes.Obs, [2]string{label, fmt.Sprintf("%d", v)})
}
func vfObserveBool(label string, v bool) {
	vfRes.Obs = append(vfRes.Obs, [2]string{label, fmt.Sprintf("%v", v)})
}
func vfObserveBytes(label string, v []byte) {
	vfRes.Obs = append(vfRes.Obs, [2]string{label, fmt.Sprintf("%x", v)})
}
func vfObserveStr(label string, v string) {
	vfRes.Obs = append(vfRes.Obs, [2]string{label, fmt.Sprintf("%x", v)})
}
func vfIteU64(c bool, a, b uint64) uint64 {
	if c {
		return a
	}
	return b
}
func vfIteInt(c bool, a, b int) int {
	if c {
		return a
	}
	return b
}
func vfIteI64(c bool, a, b int64) int64 {
	if c {
		return a
	}
	return b
}
func vfIteU32(c bool, a, b uint32) uint32 {
	if c {
		return a
	}
	return b
}
func vfIteU8(c bool, a, b uint8) uint8 {
	if c {
		return a
	}
	return b
}
func vfIteBool(c bool, a, b bool) bool {
	if c {
		return a
	}
	return b
}
func vfAnd(a, b bool) bool     { return a && b }
func vfOr(a, b bool) bool      { return a || b }
func vfNot(a bool) bool        { return !a }
func vfImplies(a, b bool) bool { return !a || b }
func vfConcretize(v uint64) uint64 { return v }
func vfConcretizeBool(v bool) bool { return v }
func vfSymbolic() bool         { return false }
func vfTier() int {
	if vfCur != nil {
		return vfCur.Tier
	}
	return 0
}
func vfExpectPanic(f func()) (panicked bool) {
	defer func() {
		if p := recover(); p != nil {
			switch p.(type) {
			case vfAbort, vfAssertFail:
				panic(p)
			}
			panicked = true
		}
	}()
	f()
	return false
}
func vfBlocks(f func()) bool {
	done := make(chan struct{})
	go func() { defer close(done); f() }()
	select {
	case <-done:
		return false
	case <-time.After(200 * time.Millisecond):
		return true
	}
}
func vfGo(f func())   { go f() }
func vfYield()        {}
func vfNoDeadlock()   {}
func vfLog(s string)  {}

func vfRunOne(v *vfVector) (res vfResult) {
	vfCur, vfPos, vfRes = v, 0, &res
	res.Status = "ok"
	f := vfRegistry[v.Harness]
	if f == nil {
		res.Status = "error: no such harness " + v.Harness
		return
	}
	defer func() {
		if p := recover(); p != nil {
			switch x := p.(type) {
			case vfAbort:
				res.Status = "abort:" + x.why
			case vfAssertFail:
				res.Status = "assert:" + x.label
			default:
				s := fmt.Sprint(p)
				if len(s) > 300 {
					s = s[:300]
				}
				res.Status = "panic:" + s
			}
		}
	}()
	f()
	return
}

// TestVerifReplay runs every vector of $VERIF_VECTORS (JSON lines) and writes one result line each to $VERIF_RESULTS.
func TestVerifReplay(t *testing.T) {
	in := os.Getenv("VERIF_VECTORS")
	out := os.Getenv("VERIF_RESULTS")
	if in == "" || out == "" {
		t.Skip("no vectors")
	}
	f, err := os.Open(in)
	if err != nil {
		t.Fatal(err)
	}
	defer f.Close()
	o, err := os.Create(out)
	if err != nil {
		t.Fatal(err)
	}
	defer o.Close()
	bw := bufio.NewWriter(o)
	defer bw.Flush()
	sc := bufio.NewScanner(f)
	sc.Buffer(make([]byte, 1<<20), 1<<26)
	for sc.Scan() {
		line := strings.TrimSpace(sc.Text())
		if line == "" {
			continue
		}
		var v vfVector
		if err := json.Unmarshal([]byte(line), &v); err != nil {
			t.Fatal(err)
		}
		res := vfRunOne(&v)
		b, _ := json.Marshal(res)
		bw.Write(b)
		bw.WriteByte('\n')
	}
}
`
