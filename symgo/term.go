package main

// Hash-consed SMT term DAG over Bool and fixed-width bit-vectors, with a
// light simplifier, a concrete evaluator (under a model of the input
// variables) and an SMT-LIB2 printer.

import (
	"fmt"
	"math/bits"
	"strings"
)

type Op uint8

const (
	OpVar Op = iota
	OpConst
	OpAdd
	OpSub
	OpMul
	OpUDiv
	OpURem
	OpSDiv
	OpSRem
	OpAnd
	OpOr
	OpXor
	OpNot
	OpNeg
	OpShl
	OpLShr
	OpAShr
	OpConcat
	OpExtract // k = hi<<8|lo
	OpZExt    // to width w
	OpSExt
	OpEq
	OpUlt
	OpUle
	OpSlt
	OpSle
	OpBNot
	OpBAnd
	OpBOr
	OpIte
)

var opNames = [...]string{
	OpVar: "var", OpConst: "const", OpAdd: "bvadd", OpSub: "bvsub", OpMul: "bvmul", OpUDiv: "bvudiv",
	OpURem: "bvurem", OpSDiv: "bvsdiv", OpSRem: "bvsrem", OpAnd: "bvand", OpOr: "bvor", OpXor: "bvxor",
	OpNot: "bvnot", OpNeg: "bvneg", OpShl: "bvshl", OpLShr: "bvlshr", OpAShr: "bvashr", OpConcat: "concat",
	OpExtract: "extract", OpZExt: "zero_extend", OpSExt: "sign_extend", OpEq: "=", OpUlt: "bvult",
	OpUle: "bvule", OpSlt: "bvslt", OpSle: "bvsle", OpBNot: "not", OpBAnd: "and", OpBOr: "or", OpIte: "ite",
}

// Term is an immutable node. W==0 means sort Bool, otherwise (_ BitVec W), W<=64.
type Term struct {
	Op      Op
	W       uint8
	A, B, C *Term
	K       uint64 // constant value, or extract hi<<8|lo
	Name    string // variables only
	ID      int
}

type termKey struct {
	op      Op
	w       uint8
	a, b, c int
	k       uint64
	name    string
}

// TermTable owns the hash-consing table. One per worker.
type TermTable struct {
	tab   map[termKey]*Term
	next  int
	True  *Term
	False *Term
}

func NewTermTable() *TermTable {
	tt := &TermTable{tab: make(map[termKey]*Term)}
	tt.True = tt.mk(OpConst, 0, nil, nil, nil, 1, "")
	tt.False = tt.mk(OpConst, 0, nil, nil, nil, 0, "")
	return tt
}

func (tt *TermTable) Size() int { return len(tt.tab) }

func tid(t *Term) int {
	if t == nil {
		return -1
	}
	return t.ID
}

func (tt *TermTable) mk(op Op, w uint8, a, b, c *Term, k uint64, name string) *Term {
	key := termKey{op, w, tid(a), tid(b), tid(c), k, name}
	if t, ok := tt.tab[key]; ok {
		return t
	}
	t := &Term{Op: op, W: w, A: a, B: b, C: c, K: k, Name: name, ID: tt.next}
	tt.next++
	tt.tab[key] = t
	return t
}

func mask(w uint8) uint64 {
	if w >= 64 {
		return ^uint64(0)
	}
	return (uint64(1) << w) - 1
}

func sext64(v uint64, w uint8) int64 {
	if w >= 64 {
		return int64(v)
	}
	sh := 64 - uint(w)
	return int64(v<<sh) >> sh
}

func (t *Term) IsConst() bool { return t.Op == OpConst }
func (t *Term) IsBool() bool  { return t.W == 0 }

func (tt *TermTable) Var(name string, w uint8) *Term { return tt.mk(OpVar, w, nil, nil, nil, 0, name) }
func (tt *TermTable) Const(v uint64, w uint8) *Term {
	if w == 0 {
		if v != 0 {
			return tt.True
		}
		return tt.False
	}
	return tt.mk(OpConst, w, nil, nil, nil, v&mask(w), "")
}
func (tt *TermTable) Bool(b bool) *Term {
	if b {
		return tt.True
	}
	return tt.False
}

// evalOp computes a binary/unary op on constants.
func evalBin(op Op, w uint8, x, y uint64) uint64 {
	m := mask(w)
	switch op {
	case OpAdd:
		return (x + y) & m
	case OpSub:
		return (x - y) & m
	case OpMul:
		return (x * y) & m
	case OpUDiv:
		if y == 0 {
			return m
		}
		return x / y
	case OpURem:
		if y == 0 {
			return x
		}
		return x % y
	case OpSDiv:
		sx, sy := sext64(x, w), sext64(y, w)
		if sy == 0 {
			if sx < 0 {
				return 1
			}
			return m
		}
		if sy == -1 {
			return uint64(-sx) & m
		}
		return uint64(sx/sy) & m
	case OpSRem:
		sx, sy := sext64(x, w), sext64(y, w)
		if sy == 0 {
			return x
		}
		if sy == -1 {
			return 0
		}
		return uint64(sx%sy) & m
	case OpAnd:
		return x & y
	case OpOr:
		return x | y
	case OpXor:
		return x ^ y
	case OpShl:
		if y >= uint64(w) {
			return 0
		}
		return (x << y) & m
	case OpLShr:
		if y >= uint64(w) {
			return 0
		}
		return x >> y
	case OpAShr:
		sx := sext64(x, w)
		if y >= uint64(w) {
			y = uint64(w) - 1
		}
		return uint64(sx>>y) & m
	}
	panic("evalBin: bad op")
}

func evalCmp(op Op, w uint8, x, y uint64) bool {
	switch op {
	case OpEq:
		return x == y
	case OpUlt:
		return x < y
	case OpUle:
		return x <= y
	case OpSlt:
		return sext64(x, w) < sext64(y, w)
	case OpSle:
		return sext64(x, w) <= sext64(y, w)
	}
	panic("evalCmp: bad op")
}

// Bin builds a bit-vector binary operation of the operands' width.
func (tt *TermTable) Bin(op Op, a, b *Term) *Term {
	if a.W != b.W || a.W == 0 {
		panic(fmt.Sprintf("Bin %s: width mismatch %d %d", opNames[op], a.W, b.W))
	}
	w := a.W
	if a.IsConst() && b.IsConst() {
		return tt.Const(evalBin(op, w, a.K, b.K), w)
	}
	// commutative: constant to the right
	switch op {
	case OpAdd, OpMul, OpAnd, OpOr, OpXor:
		if a.IsConst() {
			a, b = b, a
		}
	}
	if b.IsConst() {
		k := b.K
		switch op {
		case OpAdd, OpSub, OpOr, OpXor, OpShl, OpLShr, OpAShr:
			if k == 0 {
				return a
			}
		case OpMul:
			if k == 0 {
				return b
			}
			if k == 1 {
				return a
			}
		case OpAnd:
			if k == 0 {
				return b
			}
			if k == mask(w) {
				return a
			}
		case OpUDiv, OpSDiv:
			if k == 1 {
				return a
			}
		}
		// division/remainder by a power of two 2^s (positive as a signed value): shifts instead of a divider circuit
		if s := uint64(bits.TrailingZeros64(k)); k != 0 && k&(k-1) == 0 && s >= 1 && s < uint64(w)-1 {
			sh := tt.Const(s, w)
			bias := func() *Term { // 2^s-1 for negative a, 0 otherwise (rounds the quotient toward zero)
				return tt.Bin(OpLShr, tt.Bin(OpAShr, a, tt.Const(uint64(w)-1, w)), tt.Const(uint64(w)-s, w))
			}
			switch op {
			case OpUDiv:
				return tt.Bin(OpLShr, a, sh)
			case OpURem:
				return tt.Bin(OpAnd, a, tt.Const(k-1, w))
			case OpSDiv:
				return tt.Bin(OpAShr, tt.Bin(OpAdd, a, bias()), sh)
			case OpSRem:
				b := bias()
				return tt.Bin(OpSub, tt.Bin(OpAnd, tt.Bin(OpAdd, a, b), tt.Const(k-1, w)), b)
			}
		}
		if op == OpOr && k == mask(w) {
			return b
		}
		// unsigned division / remainder by a power of two: shift / mask (bit-blasted dividers are slow)
		if (op == OpUDiv || op == OpURem) && k > 1 && k&(k-1) == 0 {
			if op == OpURem {
				return tt.Bin(OpAnd, a, tt.Const(k-1, w))
			}
			s := uint64(0)
			for k>>s != 1 {
				s++
			}
			return tt.Bin(OpLShr, a, tt.Const(s, w))
		}
		if (op == OpShl || op == OpLShr) && k >= uint64(w) {
			return tt.Const(0, w)
		}
		// (x op c1) op c2 for add
		if op == OpAdd && a.Op == OpAdd && a.B.IsConst() {
			return tt.Bin(OpAdd, a.A, tt.Const(a.B.K+k, w))
		}
		// (x ^ c1) ^ c2 = x ^ (c1^c2)
		if op == OpXor && a.Op == OpXor && a.B.IsConst() {
			return tt.Bin(OpXor, a.A, tt.Const(a.B.K^k, w))
		}
		if op == OpSub {
			return tt.Bin(OpAdd, a, tt.Const(-k, w))
		}
		// and with low mask of a zero-extended narrower value
		if op == OpAnd && a.Op == OpZExt && k&mask(a.A.W) == mask(a.A.W) {
			return a
		}
	}
	if a.IsConst() && a.K == 0 {
		switch op {
		case OpShl, OpLShr, OpAShr:
			return a
		}
	}
	if a == b {
		switch op {
		case OpAnd, OpOr:
			return a
		case OpXor, OpSub:
			return tt.Const(0, w)
		}
	}
	if op == OpXor {
		// (x ^ m) ^ m = x (masks applied and removed again: QUIC header protection, IV xor)
		if a.Op == OpXor {
			if a.A == b {
				return a.B
			}
			if a.B == b {
				return a.A
			}
		}
		if b.Op == OpXor {
			if b.A == a {
				return b.B
			}
			if b.B == a {
				return b.A
			}
		}
	}
	return tt.mk(op, w, a, b, nil, 0, "")
}

func (tt *TermTable) Not(a *Term) *Term {
	if a.IsConst() {
		return tt.Const(^a.K, a.W)
	}
	if a.Op == OpNot {
		return a.A
	}
	return tt.mk(OpNot, a.W, a, nil, nil, 0, "")
}

func (tt *TermTable) Neg(a *Term) *Term {
	if a.IsConst() {
		return tt.Const(-a.K, a.W)
	}
	return tt.mk(OpNeg, a.W, a, nil, nil, 0, "")
}

func (tt *TermTable) Extract(a *Term, hi, lo uint8) *Term {
	if lo == 0 && hi == a.W-1 {
		return a
	}
	w := hi - lo + 1
	if a.IsConst() {
		return tt.Const(a.K>>lo, w)
	}
	switch a.Op {
	case OpZExt, OpSExt:
		if hi < a.A.W {
			return tt.Extract(a.A, hi, lo)
		}
		if a.Op == OpZExt && lo >= a.A.W {
			return tt.Const(0, w)
		}
	case OpExtract:
		l0 := uint8(a.K & 0xff)
		return tt.Extract(a.A, hi+l0, lo+l0)
	case OpConcat:
		bw := a.B.W
		if hi < bw {
			return tt.Extract(a.B, hi, lo)
		}
		if lo >= bw {
			return tt.Extract(a.A, hi-bw, lo-bw)
		}
	case OpAnd, OpOr, OpXor:
		if lo == 0 && (a.A.Op == OpZExt || a.B.Op == OpZExt || a.A.IsConst() || a.B.IsConst()) {
			return tt.Bin(a.Op, tt.Extract(a.A, hi, lo), tt.Extract(a.B, hi, lo))
		}
	}
	return tt.mk(OpExtract, w, a, nil, nil, uint64(hi)<<8|uint64(lo), "")
}

func (tt *TermTable) ZExt(a *Term, w uint8) *Term {
	if w == a.W {
		return a
	}
	if w < a.W {
		return tt.Extract(a, w-1, 0)
	}
	if a.IsConst() {
		return tt.Const(a.K, w)
	}
	if a.Op == OpZExt {
		return tt.ZExt(a.A, w)
	}
	return tt.mk(OpZExt, w, a, nil, nil, 0, "")
}

func (tt *TermTable) SExt(a *Term, w uint8) *Term {
	if w == a.W {
		return a
	}
	if w < a.W {
		return tt.Extract(a, w-1, 0)
	}
	if a.IsConst() {
		return tt.Const(uint64(sext64(a.K, a.W)), w)
	}
	if a.Op == OpZExt {
		return tt.ZExt(a.A, w) // top bit of a is zero
	}
	return tt.mk(OpSExt, w, a, nil, nil, 0, "")
}

func (tt *TermTable) Concat(hi, lo *Term) *Term {
	w := hi.W + lo.W
	if hi.IsConst() && lo.IsConst() {
		return tt.Const(hi.K<<lo.W|lo.K, w)
	}
	if hi.IsConst() && hi.K == 0 {
		return tt.ZExt(lo, w)
	}
	return tt.mk(OpConcat, w, hi, lo, nil, 0, "")
}

// Cmp builds a comparison (result Bool).
func (tt *TermTable) Cmp(op Op, a, b *Term) *Term {
	if a.W != b.W {
		panic(fmt.Sprintf("Cmp %s: width mismatch %d %d", opNames[op], a.W, b.W))
	}
	if a.W == 0 { // Bool equality
		if op != OpEq {
			panic("Cmp: ordered comparison of Bool")
		}
		if a.IsConst() {
			a, b = b, a
		}
		if b.IsConst() {
			if b.K != 0 {
				return a
			}
			return tt.BNot(a)
		}
		if a == b {
			return tt.True
		}
		return tt.mk(OpEq, 0, a, b, nil, 0, "")
	}
	if a.IsConst() && b.IsConst() {
		return tt.Bool(evalCmp(op, a.W, a.K, b.K))
	}
	if a == b {
		switch op {
		case OpEq, OpUle, OpSle:
			return tt.True
		default:
			return tt.False
		}
	}
	if op == OpEq && a.IsConst() {
		a, b = b, a
	}
	if b.IsConst() {
		switch op {
		case OpUlt:
			if b.K == 0 {
				return tt.False
			}
		case OpUle:
			if b.K == mask(a.W) {
				return tt.True
			}
		}
		// comparisons of a zero-extended value against a constant
		if a.Op == OpZExt {
			nw := a.A.W
			switch op {
			case OpEq:
				if b.K > mask(nw) {
					return tt.False
				}
				return tt.Cmp(OpEq, a.A, tt.Const(b.K, nw))
			case OpUlt:
				if b.K > mask(nw) {
					return tt.True
				}
				return tt.Cmp(OpUlt, a.A, tt.Const(b.K, nw))
			case OpUle:
				if b.K >= mask(nw) {
					return tt.True
				}
				return tt.Cmp(OpUle, a.A, tt.Const(b.K, nw))
			case OpSlt, OpSle:
				// a is non-negative in the wide type
				sb := sext64(b.K, a.W)
				if sb < 0 {
					return tt.False
				}
				if op == OpSlt {
					return tt.Cmp(OpUlt, a, b)
				}
				return tt.Cmp(OpUle, a, b)
			}
		}
		// ite(c, k1, k2) == k
		if op == OpEq && a.Op == OpIte && a.B.IsConst() && a.C.IsConst() {
			t1, t2 := a.B.K == b.K, a.C.K == b.K
			switch {
			case t1 && t2:
				return tt.True
			case t1:
				return a.A
			case t2:
				return tt.BNot(a.A)
			default:
				return tt.False
			}
		}
	}
	if a.IsConst() && a.Op != OpEq {
		if b.Op == OpZExt {
			nw := b.A.W
			switch op {
			case OpUlt: // k < zext(x)
				if a.K >= mask(nw) {
					return tt.False
				}
				return tt.Cmp(OpUlt, tt.Const(a.K, nw), b.A)
			case OpUle:
				if a.K > mask(nw) {
					return tt.False
				}
				return tt.Cmp(OpUle, tt.Const(a.K, nw), b.A)
			case OpSlt, OpSle:
				sa := sext64(a.K, a.W)
				if sa < 0 {
					return tt.True
				}
				if op == OpSlt {
					return tt.Cmp(OpUlt, a, b)
				}
				return tt.Cmp(OpUle, a, b)
			}
		}
		switch op {
		case OpUle:
			if a.K == 0 {
				return tt.True
			}
		case OpUlt:
			if a.K == mask(a.W) {
				return tt.False
			}
		}
	}
	return tt.mk(op, 0, a, b, nil, 0, "")
}

func (tt *TermTable) BNot(a *Term) *Term {
	if a.W != 0 {
		panic("BNot of non-bool")
	}
	if a.IsConst() {
		return tt.Bool(a.K == 0)
	}
	if a.Op == OpBNot {
		return a.A
	}
	return tt.mk(OpBNot, 0, a, nil, nil, 0, "")
}

func (tt *TermTable) BAnd(a, b *Term) *Term {
	if a.IsConst() {
		if a.K != 0 {
			return b
		}
		return a
	}
	if b.IsConst() {
		if b.K != 0 {
			return a
		}
		return b
	}
	if a == b {
		return a
	}
	if a.Op == OpBNot && a.A == b || b.Op == OpBNot && b.A == a {
		return tt.False
	}
	return tt.mk(OpBAnd, 0, a, b, nil, 0, "")
}

func (tt *TermTable) BOr(a, b *Term) *Term {
	if a.IsConst() {
		if a.K != 0 {
			return a
		}
		return b
	}
	if b.IsConst() {
		if b.K != 0 {
			return b
		}
		return a
	}
	if a == b {
		return a
	}
	if a.Op == OpBNot && a.A == b || b.Op == OpBNot && b.A == a {
		return tt.True
	}
	return tt.mk(OpBOr, 0, a, b, nil, 0, "")
}

func (tt *TermTable) Ite(c, a, b *Term) *Term {
	if c.W != 0 || a.W != b.W {
		panic("Ite: sort mismatch")
	}
	if c.IsConst() {
		if c.K != 0 {
			return a
		}
		return b
	}
	if a == b {
		return a
	}
	if a.W == 0 {
		if a.IsConst() && b.IsConst() {
			if a.K != 0 {
				return c
			}
			return tt.BNot(c)
		}
		if a.IsConst() {
			if a.K != 0 {
				return tt.BOr(c, b)
			}
			return tt.BAnd(tt.BNot(c), b)
		}
		if b.IsConst() {
			if b.K != 0 {
				return tt.BOr(tt.BNot(c), a)
			}
			return tt.BAnd(c, a)
		}
	}
	if c.Op == OpBNot {
		return tt.Ite(c.A, b, a)
	}
	return tt.mk(OpIte, a.W, c, a, b, 0, "")
}

// ---------------------------------------------------------------------
// Evaluation under a model.

// Model maps variable names to values; absent variables are 0.
type Model map[string]uint64

// Eval evaluates t under m. memo may be nil.
func Eval(t *Term, m Model, memo map[*Term]uint64) uint64 {
	if t.Op == OpConst {
		return t.K
	}
	if t.Op == OpVar {
		return m[t.Name] & maskB(t.W)
	}
	if memo != nil {
		if v, ok := memo[t]; ok {
			return v
		}
	}
	var r uint64
	switch t.Op {
	case OpAdd, OpSub, OpMul, OpUDiv, OpURem, OpSDiv, OpSRem, OpAnd, OpOr, OpXor, OpShl, OpLShr, OpAShr:
		r = evalBin(t.Op, t.W, Eval(t.A, m, memo), Eval(t.B, m, memo))
	case OpNot:
		r = ^Eval(t.A, m, memo) & mask(t.W)
	case OpNeg:
		r = -Eval(t.A, m, memo) & mask(t.W)
	case OpConcat:
		r = Eval(t.A, m, memo)<<t.B.W | Eval(t.B, m, memo)
	case OpExtract:
		hi, lo := uint8(t.K>>8), uint8(t.K)
		r = (Eval(t.A, m, memo) >> lo) & mask(hi-lo+1)
	case OpZExt:
		r = Eval(t.A, m, memo)
	case OpSExt:
		r = uint64(sext64(Eval(t.A, m, memo), t.A.W)) & mask(t.W)
	case OpEq, OpUlt, OpUle, OpSlt, OpSle:
		if evalCmp(t.Op, t.A.W, Eval(t.A, m, memo), Eval(t.B, m, memo)) {
			r = 1
		}
	case OpBNot:
		r = Eval(t.A, m, memo) ^ 1
	case OpBAnd:
		r = Eval(t.A, m, memo)
		if r != 0 {
			r = Eval(t.B, m, memo)
		}
	case OpBOr:
		r = Eval(t.A, m, memo)
		if r == 0 {
			r = Eval(t.B, m, memo)
		}
	case OpIte:
		if Eval(t.A, m, memo) != 0 {
			r = Eval(t.B, m, memo)
		} else {
			r = Eval(t.C, m, memo)
		}
	default:
		panic("Eval: bad op")
	}
	if memo != nil {
		memo[t] = r
	}
	return r
}

func maskB(w uint8) uint64 {
	if w == 0 {
		return 1
	}
	return mask(w)
}

// ---------------------------------------------------------------------
// SMT-LIB2 printing.

func sortStr(w uint8) string {
	if w == 0 {
		return "Bool"
	}
	return fmt.Sprintf("(_ BitVec %d)", w)
}

func constStr(t *Term) string {
	if t.W == 0 {
		if t.K != 0 {
			return "true"
		}
		return "false"
	}
	if t.W%4 == 0 {
		return fmt.Sprintf("#x%0*x", int(t.W/4), t.K)
	}
	return fmt.Sprintf("#b%0*b", int(t.W), t.K)
}

// smtRef returns the name by which a term is referenced in SMT text.
func smtRef(t *Term) string {
	switch t.Op {
	case OpConst:
		return constStr(t)
	case OpVar:
		return t.Name
	}
	return fmt.Sprintf("t%d", t.ID)
}

// smtBody returns the defining expression of a non-leaf term, referencing children by name.
func smtBody(t *Term) string {
	switch t.Op {
	case OpExtract:
		return fmt.Sprintf("((_ extract %d %d) %s)", t.K>>8, t.K&0xff, smtRef(t.A))
	case OpZExt:
		return fmt.Sprintf("((_ zero_extend %d) %s)", t.W-t.A.W, smtRef(t.A))
	case OpSExt:
		return fmt.Sprintf("((_ sign_extend %d) %s)", t.W-t.A.W, smtRef(t.A))
	case OpIte:
		return fmt.Sprintf("(ite %s %s %s)", smtRef(t.A), smtRef(t.B), smtRef(t.C))
	case OpNot, OpNeg, OpBNot:
		return fmt.Sprintf("(%s %s)", opNames[t.Op], smtRef(t.A))
	default:
		return fmt.Sprintf("(%s %s %s)", opNames[t.Op], smtRef(t.A), smtRef(t.B))
	}
}

// Emitter writes definitions for term DAG nodes exactly once per solver session.
type Emitter struct {
	defined map[int]bool
	vars    map[string]uint8
	varList []string
}

func NewEmitter() *Emitter {
	return &Emitter{defined: map[int]bool{}, vars: map[string]uint8{}}
}

// DeclareVars appends declarations for the not yet declared variables of t.
func (e *Emitter) DeclareVars(sb *strings.Builder, t *Term) {
	seen := map[*Term]bool{}
	var walk func(n *Term)
	walk = func(n *Term) {
		if n == nil || n.Op == OpConst || seen[n] {
			return
		}
		seen[n] = true
		if n.Op == OpVar {
			if _, ok := e.vars[n.Name]; !ok {
				e.vars[n.Name] = n.W
				e.varList = append(e.varList, n.Name)
				fmt.Fprintf(sb, "(declare-const %s %s)\n", n.Name, sortStr(n.W))
			}
			return
		}
		walk(n.A)
		walk(n.B)
		walk(n.C)
	}
	walk(t)
}

// Define appends to sb the declarations/definitions needed so that smtRef(t) is valid.
func (e *Emitter) Define(sb *strings.Builder, t *Term) {
	// iterative post-order to avoid deep recursion on long chains
	type item struct {
		t    *Term
		done bool
	}
	stack := []item{{t, false}}
	for len(stack) > 0 {
		it := stack[len(stack)-1]
		stack = stack[:len(stack)-1]
		n := it.t
		if n.Op == OpConst {
			continue
		}
		if n.Op == OpVar {
			if _, ok := e.vars[n.Name]; !ok {
				e.vars[n.Name] = n.W
				e.varList = append(e.varList, n.Name)
				fmt.Fprintf(sb, "(declare-const %s %s)\n", n.Name, sortStr(n.W))
			}
			continue
		}
		if e.defined[n.ID] {
			continue
		}
		if it.done {
			e.defined[n.ID] = true
			fmt.Fprintf(sb, "(define-fun t%d () %s %s)\n", n.ID, sortStr(n.W), smtBody(n))
			continue
		}
		stack = append(stack, item{n, true})
		if n.C != nil {
			stack = append(stack, item{n.C, false})
		}
		if n.B != nil {
			stack = append(stack, item{n.B, false})
		}
		if n.A != nil {
			stack = append(stack, item{n.A, false})
		}
	}
}

// TermString renders a term as a nested expression (debugging, evidence samples); depth-limited.
func TermString(t *Term, depth int) string {
	if t.Op == OpConst || t.Op == OpVar {
		return smtRef(t)
	}
	if depth <= 0 {
		return "…"
	}
	switch t.Op {
	case OpExtract:
		return fmt.Sprintf("(extract[%d:%d] %s)", t.K>>8, t.K&0xff, TermString(t.A, depth-1))
	case OpZExt, OpSExt:
		return fmt.Sprintf("(%s%d %s)", opNames[t.Op], t.W, TermString(t.A, depth-1))
	}
	s := "(" + opNames[t.Op]
	for _, c := range []*Term{t.A, t.B, t.C} {
		if c != nil {
			s += " " + TermString(c, depth-1)
		}
	}
	return s + ")"
}

// hasMulDiv reports whether the DAG under t contains multiplication/division (for back-end choice).
func hasMulDiv(t *Term, seen map[*Term]bool) bool {
	if t == nil || seen[t] {
		return false
	}
	seen[t] = true
	switch t.Op {
	case OpMul, OpUDiv, OpURem, OpSDiv, OpSRem:
		return true
	}
	return hasMulDiv(t.A, seen) || hasMulDiv(t.B, seen) || hasMulDiv(t.C, seen)
}

var _ = bits.Len64
