package main

import (
	"os"
	"runtime/pprof"
	"strconv"
	"sync"
	"time"

	"golang.org/x/tools/go/ssa"
)

// Development aid: SYMGO_CPUPROFILE=<file> [SYMGO_CPUPROFILE_SECS=<n>] writes a CPU profile of the first n seconds
// (default 60) of the run. It has no effect on results.
func init() {
	p := os.Getenv("SYMGO_CPUPROFILE")
	if p == "" {
		return
	}
	f, err := os.Create(p)
	if err != nil {
		return
	}
	secs := 60
	if s, err := strconv.Atoi(os.Getenv("SYMGO_CPUPROFILE_SECS")); err == nil && s > 0 {
		secs = s
	}
	if pprof.StartCPUProfile(f) != nil {
		return
	}
	go func() {
		time.Sleep(time.Duration(secs) * time.Second)
		pprof.StopCPUProfile()
		f.Close()
	}()
}

// fnExternName is the key under which an intrinsic for fn would be registered (fn.String() of the function or of
// its generic origin). ssa.Function.String formats the name on every call, which showed up as ~7% of the
// interpreter's time, so the result is cached.
var fnExternNames sync.Map // *ssa.Function -> string

func fnExternName(fn *ssa.Function) string {
	if s, ok := fnExternNames.Load(fn); ok {
		return s.(string)
	}
	name := fn.String()
	if fn.Origin() != nil {
		name = fn.Origin().String()
	}
	fnExternNames.Store(fn, name)
	return name
}
