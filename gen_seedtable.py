#!/usr/bin/env python3
"""Writes seeded/README.md: one row per seeded change kept under /verif/seeded (from each meta.json)."""
import json, os, re
rows = []
for d in sorted(os.listdir('/verif/seeded')):
    mp = f'/verif/seeded/{d}/meta.json'
    if not os.path.isfile(mp):
        continue
    m = json.load(open(mp))
    what = re.sub(r'\s+', ' ', m.get('what', ''))
    short = what[:230] + ('…' if len(what) > 230 else '')
    rows.append((d, m.get('detected', '?'), re.sub(r'\s+', ' ', m.get('detected_by', '')), short))
out = ['# Seeded changes (blind sub-agents, property text only) and which check catches them', '',
       'Each directory holds `patch.diff` (against /repo at the time of seeding), `demo_test.go` (fails with the patch, passes without; confirmed by `seedtest.sh`) and `meta.json`.',
       '`detected`: yes = caught by the check as it was when the seed arrived; after-strengthening = missed first, caught after the check was widened (what was widened is named); no = still missed (reason given).', '',
       '| seed | detected | by / note | change |', '|---|---|---|---|']
for r in rows:
    out.append('| %s | %s | %s | %s |' % tuple(x.replace('|', '\\|') for x in r))
n = len(rows); y = sum(1 for r in rows if r[1] == 'yes'); a = sum(1 for r in rows if r[1].startswith('after')); no = n - y - a
out += ['', f'Total {n}: caught at first evaluation {y}, caught after strengthening {a}, not caught {no}.']
open('/verif/seeded/README.md', 'w').write('\n'.join(out) + '\n')
print(out[-1])
