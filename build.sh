#!/bin/sh
# builds the engine offline into <this dir>/bin/symgo
set -e
D=$(cd "$(dirname "$0")" && pwd)
cd "$D/symgo"
export GOFLAGS=-mod=mod GOPROXY=off GOSUMDB=off GOTOOLCHAIN=local
mkdir -p "$D/bin"
go1.26.8 build -o "$D/bin/symgo" .
