#!/bin/sh
# builds the engine offline
set -e
cd /verif/symgo
export GOFLAGS=-mod=mod GOPROXY=off GOSUMDB=off GOTOOLCHAIN=local
mkdir -p /verif/bin
go1.26.8 build -o /verif/bin/symgo .
