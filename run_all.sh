#!/bin/sh
# usage: run_all.sh [tier] [ids...]   — runs the registered command of every claimed check (or the given ones) in /verif
# against /repo, one after the other, and writes <id> <exit> <wall> lines to $OUT/summary.txt (default /tmp/final).
cd "$(dirname "$0")"
tier="${1:-quick}"; [ $# -gt 0 ] && shift
OUT="${OUT:-/tmp/final}"; mkdir -p "$OUT"
ids="$*"
[ -z "$ids" ] && ids=$(python3 -c "import json;print(' '.join(c['property_id'] for c in json.load(open('MANIFEST.json'))['checks']))")
for id in $ids; do
  t0=$(date +%s)
  extra=""; [ "$tier" = thorough ] && extra="--no-evidence"   # evidence/<ID>.json describes the quick run (what `vp check` repeats)
  timeout 5400 ./bin/symgo check $id --tier $tier $extra ${WORKERS:+--workers $WORKERS} > "$OUT/$id.$tier.log" 2>&1
  rc=$?
  echo "$id $rc $(( $(date +%s) - t0 ))s $(grep -c '^KNOWN-FINDING' "$OUT/$id.$tier.log") $(date +%H:%M)" >> "$OUT/summary.$tier.txt"
done
echo ALLDONE >> "$OUT/summary.$tier.txt"
