#!/usr/bin/env python3
"""Writes /tmp/seedprompts/<ID>.txt: the brief for a blind mutation-seeding sub-agent (gets the property text only)."""
import json, os, sys
ROOT = os.environ.get("SEEDROOT", "/tmp/seed")
L1, L2 = os.environ.get("SEEDLETTERS", "A B").split()
props = {json.loads(l)['id']: json.loads(l) for l in open('/verif/properties.jsonl')}
for pid in sys.argv[1:]:
    p = props[pid]
    files = ", ".join(p['anchors'].get('files', []))
    txt = f"""You are testing how well a verification suite detects realistic regressions in golang/net (Go module golang.org/x/net).
You get ONE semantic property of the code base and must produce code changes that BREAK it in a subtle way.
Do not look at anything under /verif (you must work independently of the checks that exist).

PROPERTY {pid}: {p['title']}
Statement: {p['statement']}
Quantified over: {p['quantifier']['text']}
Code it is anchored in: {files}

Your workspace: create your own scratch git worktree of the repository and work only there:
  git -C /repo worktree add --detach {ROOT}/{pid} HEAD
(never edit /repo itself; do NOT use `git stash` — the stash is shared between all worktrees of /repo and other people work in sibling worktrees; use `git diff > file` / `git apply` / `git checkout -- .` instead). Go commands must run offline:  cd {ROOT}/{pid} && env -u GOFLAGS -u GOSUMDB GOPROXY=off go test -vet=off -count=1 ./<pkg>/...

Task: produce TWO different, independent changes ({L1} and {L2}) to the non-test source code of golang/net, each of which
 (1) still compiles, (2) still passes the existing tests of the affected package(s) unedited (run them; ideally also the
 packages that import it), (3) makes the property above false for some input / schedule / history, and (4) needs something
 SPECIFIC to manifest — a boundary value, an unusual input, a particular interleaving, a multi-step sequence of operations,
 or two cooperating sites that each look fine alone — not something ordinary use would expose at once. Realistic slips
 (off-by-one at a boundary, a dropped check on a rare path, a wrong mask/shift, a missed wake-up, state not reset on one
 path) are preferred over artificial sabotage (no `if input == magic`).
For each change write a demonstration: an ordinary Go test file (or small program) that FAILS with the change applied and
PASSES on the unmodified tree; verify both yourself.

Deliver, for X in {L1}, {L2}:
  {ROOT}/{pid}/out/X/patch.diff      (git diff of the change against HEAD, source files only)
  {ROOT}/{pid}/out/X/demo_test.go    (the demonstration; say in a comment which package directory it belongs in)
  {ROOT}/{pid}/out/X/meta.json       {{"property":"{pid}","what":"<one paragraph: what was changed>","needs":"<what it needs in order to manifest>","ran":["<commands you ran and their outcome>"]}}
Leave the worktree itself clean at the end (git -C {ROOT}/{pid} checkout -- . ; remove the demo from the tree) — the
deliverables live only under out/. Final answer: two short paragraphs describing {L1} and {L2} and confirming the four points.
"""
    open(f'/tmp/seedprompts/{pid}{os.environ.get("SEEDSUFFIX","")}.txt', 'w').write(txt)
    print(pid, 'ok')
